"""Harness self-test (not a claimed check): the reference interpreter is
cross-validated against gcc-compiled C emitted by exo for generated programs,
so that a disagreement between my semantics and Exo's cannot surface later as a
false alarm.   python -m sim.xval [N]"""
from __future__ import annotations

import os
import subprocess
import sys
import tempfile

here = os.path.dirname(os.path.dirname(os.path.abspath(__file__)))
sys.path[:0] = [here, os.path.join(os.environ.get("EXO_REPO", "/repo"), "src")]


def c_driver(ir, spec, cfg, configs, hname, htext=""):
    import re

    from exo.core.LoopIR import T

    L = ['#include <stdio.h>', '#include <stdlib.h>', f'#include "{hname}"', "int main(void) {"]
    L.append("  c_code_str_Context ctxt_v; c_code_str_Context *ctxt = &ctxt_v;" if False else "")
    args = []
    for i, (a, d) in enumerate(zip(ir.args, spec)):
        if d["k"] == "int":
            args.append(str(d["v"]))
        elif d["k"] == "bool":
            args.append("1" if d["v"] else "0")
        else:
            vals = ", ".join(repr(n / m) + "f" for n, m in d["data"])
            L.append(f"  static float buf{i}[{max(1, d['total'])}] = {{ {vals} }};")
            is_win = isinstance(a.type, T.Tensor) and a.type.is_window
            if is_win:
                st = ", ".join(str(s) for s in d["strides"])
                m = re.search(rf"struct (exo_win_\w+) {a.name}\b", htext)
                sname = m.group(1) if m else f"exo_win_{len(d['shape'])}f32"
                L.append(f"  struct {sname} w{i} = {{ &buf{i}[{d['off']}], {{ {st} }} }};")
                args.append(f"w{i}")
            elif d["shape"]:
                args.append(f"buf{i}")
            else:
                args.append(f"&buf{i}[0]")
    return L, args


def main():
    n = int(sys.argv[1]) if len(sys.argv) > 1 else 40
    from checks import common

    common.preload()
    import random

    from exo.API import compile_procs_to_strings
    from sim import gen_prog, inputs as INP
    from sim.interp import POISON, InterpBudget, InterpUnsupported
    from sim.progs import define
    from sim.state import reset_exo_globals

    agree = skipped = 0
    bad = []
    for seed in range(n):
        reset_exo_globals()
        r = random.Random(seed)
        lib = define(gen_prog.LIB_SRC, tag="lib")
        src, motifs = gen_prog.gen_program(r, {"configs": seed % 3 == 0, "par": False, "no_instr": True})
        try:
            ns = define(src, lib, tag="xv")
        except Exception:
            skipped += 1
            continue
        p = ns["p"]
        ir = p._loopir_proc
        try:
            spec = INP.gen_spec(ir, r, max_size=4, strided=True)
            cfgs = INP.collect_configs(ir)
            cfg = INP.gen_config(cfgs, r)
            ref = INP.run_proc(ir, spec, cfg, max_steps=40000)
            c, h = compile_procs_to_strings([p], "xv.h")
        except (INP.NoInput, InterpBudget, InterpUnsupported, Exception) as e:
            skipped += 1
            continue
        if ref["mon"].kinds() - {"poison-read"}:
            skipped += 1
            continue
        with tempfile.TemporaryDirectory(dir=os.path.join(here, "scratch") if os.path.isdir(os.path.join(here, "scratch")) else None) as d:
            open(os.path.join(d, "xv.c"), "w").write(c)
            open(os.path.join(d, "xv.h"), "w").write(h)
            L = ['#include <stdio.h>', '#include "xv.h"', "int main(void) {"]
            has_ctx = "xv_Context" in h and "struct" in h
            if cfgs:
                L.append("  xv_Context cv;")
                for (cobj, f), v in cfg.items():
                    val = ("1" if v else "0") if isinstance(v, bool) else repr(float(v)) if not isinstance(v, int) else str(v)
                    L.append(f"  cv.{cobj.name()}.{f} = {val};")
                ctx = "&cv"
            else:
                ctx = "NULL"
            dl, args = c_driver(ir, spec, cfg, cfgs, "xv.h", h)
            L += [x for x in dl[4:] if x]
            L.append(f"  p({', '.join([ctx] + args)});")
            for i, dsp in enumerate(spec):
                if dsp["k"] == "buf":
                    L.append(f"  for (int k = 0; k < {dsp['total']}; k++) printf(\"%.9g\\n\", (double)buf{i}[k]);")
                    L.append('  printf("--\\n");')
            for (cobj, f), v in (cfg.items() if cfgs else []):
                L.append(f'  printf("cfg %.9g\\n", (double)cv.{cobj.name()}.{f});')
            L.append("  return 0; }")
            open(os.path.join(d, "main.c"), "w").write("\n".join(L))
            cc = subprocess.run(["gcc", "-O0", "-o", "xv", "main.c", "xv.c", "-lm"], cwd=d, capture_output=True, text=True)
            if cc.returncode != 0:
                skipped += 1
                if len(bad) < 3 and "undefined reference" not in cc.stderr:
                    print("gcc failed seed", seed, cc.stderr[-400:])
                continue
            out = subprocess.run(["./xv"], cwd=d, capture_output=True, text=True, timeout=20).stdout.split("\n")
        it = iter(out)
        ok = True
        for i, dsp in enumerate(spec):
            if dsp["k"] != "buf":
                continue
            for k in range(dsp["total"]):
                got = float(next(it))
                want = ref["outs"][i][k]
                if want is POISON:
                    continue
                if abs(got - float(want)) > 1e-4 * max(1.0, abs(float(want))):
                    ok = False
                    bad.append((seed, i, k, got, float(want)))
                    break
            next(it)
            if not ok:
                break
        if ok and cfgs:
            for (cobj, f), v in cfg.items():
                line = next(it)
                got = float(line.split()[1])
                want = ref["config"].get((cobj, f))
                if want is POISON or want is None:
                    continue
                if abs(got - float(want)) > 1e-4 * max(1.0, abs(float(want))):
                    ok = False
                    bad.append((seed, "cfg", f, got, float(want)))
                    break
        if ok:
            agree += 1
        else:
            print("DISAGREE seed", seed, bad[-1], "\n", src)
    print(f"xval: programs={n} agree={agree} skipped={skipped} disagree={len(bad)}")
    return 1 if bad else 0


if __name__ == "__main__":
    sys.exit(main())

"""Reference interpreter for LoopIR (the executable reference model).

* interprets Procedure.INTERNAL_proc() directly - never printed text, never C;
* data values are Fractions (real-number algebra is exact), control values are
  Python ints with floor // and non-negative %;
* buffers are (store, offset, strides, shape) views; argument buffers may be
  embedded in larger stores with non-unit strides;
* monitors: out-of-bounds, negative trip count, callee assertion, non-positive
  size, shape mismatch, aliasing of call arguments, read of a never-written
  element (poison);
* every statement executor is a generator that yields at shared accesses, so
  the same code runs sequentially (driver exhausts the generator) and under the
  seeded task scheduler of par-sim (iterations of `par` loops are tasks).
"""
from __future__ import annotations

from fractions import Fraction

from exo.core.LoopIR import LoopIR, T


class InterpUnsupported(Exception):
    """Program uses something outside the interpreter's exact semantics."""


class InterpBudget(Exception):
    pass


class InterpUnbound(Exception):
    """A symbol is used outside the scope of any declaration of it."""


class _Poison:
    __slots__ = ()

    def __repr__(self):
        return "POISON"


POISON = _Poison()


class Store:
    __slots__ = ("data", "name", "sid", "alloc_ctx", "is_arg")

    def __init__(self, n, name, sid, fill=POISON, alloc_ctx=(), is_arg=False):
        self.data = [fill] * n
        self.name = name
        self.sid = sid
        self.alloc_ctx = alloc_ctx
        self.is_arg = is_arg


class View:
    __slots__ = ("store", "off", "strides", "shape")

    def __init__(self, store, off, strides, shape):
        self.store = store
        self.off = off
        self.strides = tuple(strides)
        self.shape = tuple(shape)

    def flat(self, idx):
        o = self.off
        for i, s in zip(idx, self.strides):
            o += i * s
        return o

    def all_indices(self):
        def rec(d):
            if d == len(self.shape):
                yield ()
                return
            for i in range(self.shape[d]):
                for r in rec(d + 1):
                    yield (i,) + r

        return rec(0)

    def to_list(self):
        return [self.store.data[self.flat(ix)] for ix in self.all_indices()]


class Monitor:
    """Collects safety events; `first(kind)` gives the first of a kind."""

    def __init__(self):
        self.events = []
        self.counts = {}

    def hit(self, kind, **info):
        self.counts[kind] = self.counts.get(kind, 0) + 1
        if len(self.events) < 50:
            self.events.append((kind, info))

    def kinds(self):
        return set(self.counts)

    def first(self, kind):
        for k, i in self.events:
            if k == kind:
                return i
        return None


def _is_num(t):
    return t.is_real_scalar()


class ParFrame:
    __slots__ = ("inst", "it", "R", "W")

    def __init__(self, inst, it):
        self.inst = inst
        self.it = it
        self.R = set()
        self.W = set()


class Interp:
    def __init__(self, max_steps=200000, par_mode="seq", sched=None):
        self.max_steps = max_steps
        self.steps = 0
        self.mon = Monitor()
        self.config = {}
        self.par_mode = par_mode  # "seq": par loops run in order; "tasks": scheduled
        self.sched = sched
        self._sid = 0
        self._inst = 0
        self.races = []  # detected conflicts (oracle a)
        self.par_instances = 0
        self.par_multi_iter = 0
        self.sched_steps = 0
        self.trace_sched = []  # (instance, chosen iteration) decisions, for replay files

    # ------------------------------------------------------------------ #
    # stores

    def new_store(self, n, name, fill=POISON, ctx=(), is_arg=False):
        self._sid += 1
        return Store(n, name, self._sid, fill, ctx, is_arg)

    def tick(self):
        self.steps += 1
        if self.steps > self.max_steps:
            raise InterpBudget()

    # ------------------------------------------------------------------ #
    # access recording for the conflict monitor

    def _rec(self, ctx, store, flat, write):
        if not ctx:
            return
        key = (store.sid, flat)
        for fr in ctx:
            if fr in store.alloc_ctx:
                continue  # allocated inside this iteration: private
            (fr.W if write else fr.R).add(key)

    def _rec_cfg(self, ctx, key, write):
        for fr in ctx:
            (fr.W if write else fr.R).add(("cfg", key))

    # ------------------------------------------------------------------ #
    # expressions

    def eval(self, e, env, ctx):
        if isinstance(e, LoopIR.Read):
            try:
                v = env[e.name]
            except KeyError:
                raise InterpUnbound(repr(e.name))
            if isinstance(v, View):
                if len(e.idx) != len(v.shape):
                    if not e.idx:
                        return v  # whole buffer (only legal as a call argument)
                    self.mon.hit("rank-mismatch", buf=str(e.name))
                    raise InterpUnsupported("rank mismatch")
                idx = [self.eval(i, env, ctx) for i in e.idx]
                for d, (i, n) in enumerate(zip(idx, v.shape)):
                    if not (0 <= i < n):
                        self.mon.hit("oob-read", buf=str(e.name), dim=d, idx=i, extent=n)
                        return POISON
                f = v.flat(idx)
                self._rec(ctx, v.store, f, False)
                val = v.store.data[f]
                if val is POISON:
                    self.mon.hit("poison-read", buf=str(e.name), store=v.store.name)
                return val
            return v
        if isinstance(e, LoopIR.Const):
            if isinstance(e.val, bool):
                return e.val
            if e.type.is_indexable() or isinstance(e.type, (T.Int, T.Stride)):
                return int(e.val)
            if isinstance(e.val, int):
                return Fraction(e.val)
            return Fraction(repr(float(e.val))) if not isinstance(e.val, Fraction) else e.val
        if isinstance(e, LoopIR.USub):
            a = self.eval(e.arg, env, ctx)
            return POISON if a is POISON else -a
        if isinstance(e, LoopIR.BinOp):
            op = e.op
            if op == "and":
                return bool(self.eval(e.lhs, env, ctx)) and bool(self.eval(e.rhs, env, ctx))
            if op == "or":
                return bool(self.eval(e.lhs, env, ctx)) or bool(self.eval(e.rhs, env, ctx))
            a = self.eval(e.lhs, env, ctx)
            b = self.eval(e.rhs, env, ctx)
            if a is POISON or b is POISON:
                return POISON
            if op == "+":
                return a + b
            if op == "-":
                return a - b
            if op == "*":
                return a * b
            if op == "/":
                if isinstance(a, Fraction) or isinstance(b, Fraction) or _is_num(e.type):
                    if b == 0:
                        raise InterpUnsupported("real division by zero")
                    return Fraction(a) / Fraction(b)
                if b <= 0:
                    self.mon.hit("div-nonpositive", b=b)
                    raise InterpUnsupported("index division by non-positive")
                return a // b
            if op == "%":
                if b <= 0:
                    self.mon.hit("mod-nonpositive", b=b)
                    raise InterpUnsupported("index modulo by non-positive")
                return a % b
            if op == "<":
                return a < b
            if op == ">":
                return a > b
            if op == "<=":
                return a <= b
            if op == ">=":
                return a >= b
            if op == "==":
                return a == b
            raise InterpUnsupported(f"binop {op}")
        if isinstance(e, LoopIR.StrideExpr):
            try:
                v = env[e.name]
            except KeyError:
                raise InterpUnbound(repr(e.name))
            return v.strides[e.dim]
        if isinstance(e, LoopIR.ReadConfig):
            key = (e.config, e.field)
            self._rec_cfg(ctx, (e.config.name(), e.field), False)
            if key not in self.config:
                raise InterpUnsupported(f"config {e.config.name()}.{e.field} has no initial value")
            return self.config[key]
        if isinstance(e, LoopIR.Extern):
            args = [self.eval(a, env, ctx) for a in e.args]
            nm = e.f.name()
            if any(a is POISON for a in args):
                return POISON
            if nm == "relu":
                return args[0] if args[0] > 0 else Fraction(0)
            if nm == "select":
                return args[2] if args[0] < args[1] else args[3]
            if nm == "fmaxf":
                return max(args[0], args[1])
            raise InterpUnsupported(f"extern {nm}")
        if isinstance(e, LoopIR.WindowExpr):
            return self.window(e, env, ctx)
        raise InterpUnsupported(f"expr {type(e).__name__}")

    def window(self, e, env, ctx):
        try:
            v = env[e.name]
        except KeyError:
            raise InterpUnbound(repr(e.name))
        if len(e.idx) != len(v.shape):
            self.mon.hit("rank-mismatch", buf=str(e.name))
            raise InterpUnsupported("window rank mismatch")
        off = v.off
        strides, shape = [], []
        for d, w in enumerate(e.idx):
            n = v.shape[d]
            if isinstance(w, LoopIR.Point):
                p = self.eval(w.pt, env, ctx)
                if not (0 <= p < n):
                    self.mon.hit("oob-window", buf=str(e.name), dim=d, idx=p, extent=n)
                off += p * v.strides[d]
            else:
                lo = self.eval(w.lo, env, ctx)
                hi = self.eval(w.hi, env, ctx)
                if not (0 <= lo <= hi <= n):
                    self.mon.hit("oob-window", buf=str(e.name), dim=d, lo=lo, hi=hi, extent=n)
                off += lo * v.strides[d]
                strides.append(v.strides[d])
                shape.append(max(0, hi - lo))
        return View(v.store, off, strides, shape)

    # ------------------------------------------------------------------ #
    # statements (generators)

    def exec_stmts(self, stmts, env, ctx):
        for s in stmts:
            yield from self.exec_s(s, env, ctx)

    def _lhs(self, s, env, ctx):
        try:
            v = env[s.name]
        except KeyError:
            raise InterpUnbound(repr(s.name))
        if not isinstance(v, View):
            raise InterpUnsupported("assignment to control value")
        idx = [self.eval(i, env, ctx) for i in s.idx]
        if len(idx) != len(v.shape):
            self.mon.hit("rank-mismatch", buf=str(s.name))
            raise InterpUnsupported("rank mismatch")
        for d, (i, n) in enumerate(zip(idx, v.shape)):
            if not (0 <= i < n):
                self.mon.hit("oob-write", buf=str(s.name), dim=d, idx=i, extent=n)
                return v, None
        return v, v.flat(idx)

    def exec_s(self, s, env, ctx):
        self.tick()
        if isinstance(s, LoopIR.Assign):
            if ctx:
                yield
            val = self.eval(s.rhs, env, ctx)
            v, f = self._lhs(s, env, ctx)
            if ctx:
                yield
            if f is not None:
                self._rec(ctx, v.store, f, True)
                v.store.data[f] = val
        elif isinstance(s, LoopIR.Reduce):
            if ctx:
                yield
            val = self.eval(s.rhs, env, ctx)
            v, f = self._lhs(s, env, ctx)
            if ctx:
                yield
            if f is not None:
                self._rec(ctx, v.store, f, False)
                old = v.store.data[f]
                if old is POISON:
                    self.mon.hit("poison-read", buf=str(s.name), store=v.store.name)
                if ctx:
                    yield  # read-modify-write is not atomic
                self._rec(ctx, v.store, f, True)
                v.store.data[f] = POISON if (old is POISON or val is POISON) else old + val
        elif isinstance(s, LoopIR.WriteConfig):
            if ctx:
                yield
            val = self.eval(s.rhs, env, ctx)
            if ctx:
                yield
            self._rec_cfg(ctx, (s.config.name(), s.field), True)
            self.config[(s.config, s.field)] = val
        elif isinstance(s, LoopIR.Pass):
            pass
        elif isinstance(s, LoopIR.If):
            c = self.eval(s.cond, env, ctx)
            if c is POISON:
                self.mon.hit("poison-control")
                raise InterpUnsupported("poison in control")
            if c:
                yield from self.exec_stmts(s.body, env.copy(), ctx)
            else:
                yield from self.exec_stmts(s.orelse, env.copy(), ctx)
        elif isinstance(s, LoopIR.For):
            lo = self.eval(s.lo, env, ctx)
            hi = self.eval(s.hi, env, ctx)
            if hi < lo:
                self.mon.hit("negative-trip-count", iter=str(s.iter), lo=lo, hi=hi)
            if isinstance(s.loop_mode, LoopIR.Par):
                yield from self.exec_par(s, lo, hi, env, ctx)
            else:
                for i in range(lo, hi):
                    e2 = env.copy()
                    e2[s.iter] = i
                    yield from self.exec_stmts(s.body, e2, ctx)
        elif isinstance(s, LoopIR.Alloc):
            shape = []
            for h in s.type.shape():
                n = self.eval(h, env, ctx)
                if n <= 0:
                    self.mon.hit("nonpositive-alloc", buf=str(s.name), n=n)
                    n = max(n, 0)
                shape.append(n)
            tot = 1
            for n in shape:
                tot *= n
            strides = []
            acc = 1
            for n in reversed(shape):
                strides.append(acc)
                acc *= n
            strides.reverse()
            st = self.new_store(tot, str(s.name), POISON, tuple(ctx))
            env[s.name] = View(st, 0, strides, shape)
        elif isinstance(s, LoopIR.Free):
            pass
        elif isinstance(s, LoopIR.WindowStmt):
            env[s.name] = self.window(s.rhs, env, ctx)
        elif isinstance(s, LoopIR.Call):
            yield from self.exec_call(s, env, ctx)
        else:
            raise InterpUnsupported(f"stmt {type(s).__name__}")

    def exec_call(self, s, env, ctx):
        f = s.f
        cenv = {}
        passed = {}
        # first pass: control values (sizes etc.) so shapes can be evaluated
        vals = []
        for fa, a in zip(f.args, s.args):
            if fa.type.is_numeric():
                if isinstance(a, LoopIR.Read) and isinstance(env.get(a.name), View) and not a.idx:
                    v = env[a.name]
                elif isinstance(a, LoopIR.WindowExpr):
                    v = self.window(a, env, ctx)
                else:
                    # by-value scalar expression
                    x = self.eval(a, env, ctx)
                    st = self.new_store(1, "tmp", x, tuple(ctx))
                    v = View(st, 0, (), ())
                    vals.append((fa, v))
                    continue
                prev = passed.get(v.store.sid)
                if prev is not None:
                    self.mon.hit("alias", callee=str(f.name), buf=v.store.name)
                passed[v.store.sid] = fa
                vals.append((fa, v))
            else:
                x = self.eval(a, env, ctx)
                vals.append((fa, x))
        for fa, v in vals:
            cenv[fa.name] = v
        for fa, v in vals:
            if isinstance(fa.type, T.Size) and v <= 0:
                self.mon.hit("nonpositive-size", callee=str(f.name), arg=str(fa.name), val=v)
            if fa.type.is_numeric():
                want = [self.eval(h, cenv, ctx) for h in fa.type.shape()]
                if list(v.shape) != want:
                    self.mon.hit("shape-mismatch", callee=str(f.name), arg=str(fa.name), got=list(v.shape), want=want)
                if isinstance(fa.type, T.Tensor) and not fa.type.is_window and len(v.shape) > 0:
                    # dense tensor formal: actual must be densely laid out
                    acc = 1
                    dense = []
                    for n in reversed(v.shape):
                        dense.append(acc)
                        acc *= n
                    dense.reverse()
                    if list(v.strides) != dense and all(n > 1 for n in v.shape):
                        self.mon.hit("nondense-to-tensor", callee=str(f.name), arg=str(fa.name))
        for p in f.preds:
            ok = self.eval(p, cenv, ctx)
            if ok is not True:
                self.mon.hit("callee-assert", callee=str(f.name), pred=str(p))
        yield from self.exec_stmts(f.body, cenv, ctx)

    def exec_par(self, s, lo, hi, env, ctx):
        self._inst += 1
        inst = self._inst
        self.par_instances += 1
        n = max(0, hi - lo)
        if n > 1:
            self.par_multi_iter += 1
        frames = [ParFrame(inst, i) for i in range(lo, hi)]
        gens = []
        for fr in frames:
            e2 = env.copy()
            e2[s.iter] = fr.it
            gens.append(self.exec_stmts(s.body, e2, tuple(ctx) + (fr,)))
        if self.par_mode == "seq" or self.sched is None:
            for g in gens:
                for _ in g:
                    if ctx:
                        yield
        else:
            alive = list(range(len(gens)))
            while alive:
                k = self.sched.pick(inst, alive, frames)
                self.sched_steps += 1
                try:
                    next(gens[k])
                except StopIteration:
                    alive.remove(k)
                    self.sched.done(inst, k)
                if ctx:
                    yield
        # oracle (a): pairwise disjointness of iteration footprints
        for a in range(len(frames)):
            fa = frames[a]
            if not fa.W:
                continue
            for b in range(len(frames)):
                if a == b:
                    continue
                fb = frames[b]
                bad = fa.W & (fb.R | fb.W)
                if bad:
                    loc = sorted(bad, key=str)[0]
                    self.races.append(
                        {"loop": str(s.iter), "iter_a": fa.it, "iter_b": fb.it, "loc": str(loc), "n_locs": len(bad)}
                    )
                    break
            if self.races and self.races[-1]["loop"] == str(s.iter) and len(self.races) > 20:
                break
        # propagate footprints to enclosing frames happened already via ctx

    # ------------------------------------------------------------------ #
    # entry

    def run(self, proc, argvals: dict, config: dict | None = None):
        """argvals: Sym -> int/bool/View.  Returns the Monitor."""
        if config:
            self.config.update(config)
        env = dict(argvals)
        for p in proc.preds:
            ok = self.eval(p, env, ())
            if ok is not True:
                raise InterpUnsupported(f"input violates assertion {p}")
        for _ in self.exec_stmts(proc.body, env, ()):
            pass
        return self.mon

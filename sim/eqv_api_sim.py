"""C11 level (b): the reference closure model fed by real Procedure objects and
real scheduling operations.

The model's edges come from an op table that is independent of the code under
test: ordinary rewrites are steps modulo the empty set, configuration rewrites
are steps modulo the set handed to the equivalence tracker (observed at the
Procedure constructor; its correctness is C10's business), signature-changing
operations (partial_eval, add_assertion, the sub-procedure returned by
extract_subproc) start a new origin, unsafe_assert_eq is an explicit edge.
Every answer of check_eqv_proc / get_strictest_eqv_proc / call_eqv acceptance is
compared with the closure.
"""
from __future__ import annotations

from .eqv_sim import EqvModel
from .kernel import EventLog, Probes, substream
from .progs import define
from .seams import CrashSeam, collect, gc_off, make_crash_exc

SRC = '''
@config
class CfgA:
    a: f32
    b: f32


@config
class CfgB:
    a: f32


@proc
def g(n: size, dst: [f32][n], v: f32):
    for i in seq(0, n):
        dst[i] = dst[i] * v


@proc
def h(n: size, dst: [f32][n], v: f32):
    for i in seq(0, n):
        dst[i] = dst[i] * v


@proc
def top(n: size, x: f32[n], y: f32[n], s: f32):
    g(n, y[0:n], s)
    for i in seq(0, n):
        y[i] += x[i]


@proc
def top2(n: size, x: f32[n], y: f32[n], s: f32):
    h(n, y[0:n], s)


@proc
def mat(n: size, A: f32[n, n], y: f32[n], v: f32):
    for i in seq(0, n):
        y[i] = A[i, 0] * v
'''

FIELDS = [("CfgA", "a"), ("CfgA", "b"), ("CfgB", "a")]


def _written_fields(ir, skip=None):
    """(config name, field) of every WriteConfig in ir or its callees (except
    inside the procedure `skip`)."""
    from exo.core.LoopIR import LoopIR

    seen = {id(skip)} if skip is not None else set()
    out = set()

    def rec(stmts):
        for s in stmts:
            if isinstance(s, LoopIR.WriteConfig):
                out.add((s.config.name(), s.field))
            elif isinstance(s, LoopIR.If):
                rec(s.body)
                rec(s.orelse)
            elif isinstance(s, LoopIR.For):
                rec(s.body)
            elif isinstance(s, LoopIR.Call) and id(s.f) not in seen:
                seen.add(id(s.f))
                rec(s.f.body)

    rec(ir.body)
    return out


def gen_history(seed: int, cfg: dict) -> list:
    r = substream(seed, "eqv-api-hist")
    n_ops = r.randint(cfg.get("min_ops", 6), cfg.get("max_ops", 16))
    fault_rate = cfg.get("fault_rate", 0.0)
    live = ["g", "h", "top", "top2", "mat"]
    lineage = {x: x for x in live}
    ops = []
    k = 0
    for i in range(n_ops):
        u = r.random()
        p = r.choice(live)
        k += 1
        out = f"v{k}"
        lineage[out] = lineage[p] if not (0.66 <= u < 0.76) else out
        if u < 0.16:
            ops.append({"op": "rename", "on": p, "out": out, "name": r.choice(["foo", "bar", "baz"])})
        elif u < 0.26:
            ops.append({"op": "simplify", "on": p, "out": out})
        elif u < 0.34:
            ops.append({"op": "insert_pass", "on": p, "out": out})
        elif u < 0.52:
            c, f = r.choice(FIELDS)
            ops.append({"op": "write_config", "on": p, "out": out, "cfg": c, "field": f, "rhs": r.choice(["v", "s", "1.0"]), "after": r.random() < 0.5})
        elif u < 0.60:
            c, f = r.choice(FIELDS)
            ops.append({"op": "bind_config", "on": p, "out": out, "cfg": c, "field": f})
        elif u < 0.66:
            ops.append({"op": "delete_config", "on": p, "out": out})
        elif u < 0.72:
            ops.append({"op": "partial_eval", "on": p, "out": out, "n": r.choice([2, 3, 4])})
        elif u < 0.76:
            ops.append({"op": "add_assertion", "on": p, "out": out})
        elif u < 0.78:
            ops.append({"op": "extract_subproc", "on": p, "out": out})
        elif u < 0.80:
            # signature changers beyond partial_eval / add_assertion: transpose of a 2-D argument
            ms = [x for x in live if lineage[x] == "mat"]
            p = r.choice(ms) if ms else p
            if ms:
                lineage[out] = out
                ops.append({"op": "transpose", "on": p, "out": out})
            else:
                ops.append({"op": "set_memory", "on": p, "out": out})
        elif u < 0.85:
            ops.append({"op": "unsafe_assert_eq", "on": p, "other": r.choice(live)})
            continue
        elif u < 0.95:
            callers = [x for x in live if lineage[x] in ("top", "top2")]
            p = r.choice(callers)
            lineage[out] = lineage[p]
            want = "g" if lineage[p] == "top" else "h"
            cands = [x for x in live if lineage[x] == want]
            callee = r.choice(cands) if cands and r.random() < 0.8 else r.choice(live)
            ops.append({"op": "call_eqv", "on": p, "out": out, "callee": callee})
        else:
            ops.append({"op": "forget", "on": p}) if len(live) > 6 and p not in ("g", "h", "top", "top2", "mat") else ops.append({"op": "gc"})
            if ops[-1]["op"] == "forget":
                live.remove(p)
            continue
        if r.random() < fault_rate:
            ops[-1]["crash"] = {"u": r.random(), "flavour": r.choice(["crash", "interrupt"])}
        live.append(out)
        # queries between random pairs after every step
        for _ in range(r.randint(1, 3)):
            a, b = r.choice(live), r.choice(live)
            K = [list(x) for x in r.sample(FIELDS, r.randint(0, 2))]
            ops.append({"op": r.choice(["check", "strictest"]), "a": a, "b": b, "K": K})
    return ops


def run_history(ops: list, log_keep=False) -> dict:
    import exo.API_scheduling as AS
    from exo.API import Procedure
    from exo.core import proc_eqv as PE
    from exo.core.configs import reverse_config_lookup

    gc_off()
    # S3 with address reuse: procedure hashes are serial numbers, and the serial of a collected
    # procedure is handed to the next new one (deterministic stand-in for id() reuse)
    from .seams import salt_begin_run

    salt_begin_run(0x51C11, reuse=True)
    log = EventLog(keep=log_keep)
    probes = Probes()
    model = EqvModel()
    faults = {"crash_planned": 0, "crash_fired": 0, "forget": 0, "gc": 0}
    viol = None
    ns = define(SRC, tag="eqvapi")
    procs = {k: ns[k] for k in ("g", "h", "top", "top2", "mat")}
    for k in procs:
        model.add_node(k)
    crash = CrashSeam()

    def fail(sig, detail, idx, op):
        nonlocal viol
        if viol is None:
            viol = {"prop": "C11", "sig": sig, "detail": detail, "step": idx, "op": op,
                    "key": {"sig": sig, "op": op["op"], "engine": "eqv-api"}}

    def keyname(sym):
        c, f = reverse_config_lookup(sym)
        return (c.name(), f)

    def sym_of(cname, f):
        return ns[cname]._INTERNAL_sym(f)

    # observe what the API hands to the tracker
    observed = []
    orig_derive = PE.derive_proc

    def spy_derive(orig_proc, new_proc, config_set=frozenset()):
        observed.append(frozenset(keyname(s) for s in config_set))
        return orig_derive(orig_proc, new_proc, config_set)

    import exo.API as API

    API.derive_proc = spy_derive

    ctx = {}

    def do(op, p):
        nm = op["op"]
        ctx.pop("old_callee", None)
        if nm == "rename":
            return AS.rename(p, op["name"])
        if nm == "simplify":
            return AS.simplify(p)
        if nm == "insert_pass":
            return AS.insert_pass(p, p.body()[0].before())
        if nm == "write_config":
            st = p.body()[0]
            gap = st.after() if op["after"] else st.before()
            return AS.write_config(p, gap, ns[op["cfg"]], op["field"], op["rhs"])
        if nm == "bind_config":
            c = None
            for pat in ("v", "s"):
                try:
                    c = p.find(pat)
                    break
                except Exception:
                    continue
            if c is None:
                raise LookupError("no scalar read")
            return AS.bind_config(p, c, ns[op["cfg"]], op["field"])
        if nm == "delete_config":
            c = p.find("_._ = _") if False else None
            for cname, f in FIELDS:
                try:
                    c = p.find(f"{cname}.{f} = _")
                    break
                except Exception:
                    continue
            if c is None:
                raise LookupError("no config write")
            return AS.delete_config(p, c)
        if nm == "partial_eval":
            return p.partial_eval(n=op["n"])
        if nm == "add_assertion":
            return p.add_assertion("n > 0")
        if nm == "transpose":
            a2 = [a for a in p.args() if a.is_tensor() and len(a.shape()) == 2]
            if not a2:
                raise LookupError("no 2-D argument")
            return p.transpose(a2[0])
        if nm == "set_memory":
            from exo.libs.memories import DRAM_STACK

            al = [a for a in p.args() if a.is_tensor()]
            if not al:
                raise LookupError("no tensor argument")
            return AS.set_memory(p, al[0], DRAM_STACK)
        if nm == "extract_subproc":
            r0, sub = AS.extract_subproc(p, p.body()[0], "ex_sub")
            return (r0, sub)
        if nm == "call_eqv":
            q = procs[op["callee"]]
            call = None
            for cal in ("g", "h", "foo", "bar", "baz", "ex_sub"):
                try:
                    call = p.find(f"{cal}(_)")
                    break
                except Exception:
                    continue
            if call is None:
                raise LookupError("no call")
            ctx["old_callee"] = call._impl._node.f
            return AS.call_eqv(p, call, q)
        raise LookupError(nm)

    for idx, op in enumerate(ops):
        nm = op["op"]
        if nm in ("check", "strictest"):
            if op["a"] not in procs or op["b"] not in procs:
                continue
            a, b = procs[op["a"]]._loopir_proc, procs[op["b"]]._loopir_proc
            K = frozenset(tuple(x) for x in op.get("K", []))
            Ksyms = frozenset(sym_of(c, f) for c, f in K)
            if nm == "check":
                got = bool(PE.check_eqv_proc(a, b, Ksyms))
                lo = model.check(op["a"], op["b"], K, False)
                hi = model.check(op["a"], op["b"], K, True) if model.has_optional() else lo
                log.log("check", a=op["a"], b=op["b"], K=sorted(K), got=got)
                probes.hit("check_true" if got else "check_false")
                if got and not hi:
                    fail("check:over-reports-equivalence", f"{op['a']} ~ {op['b']} modulo {sorted(K)} reported, closure says no", idx, op)
                elif (not got) and lo:
                    fail("check:under-reports-equivalence", f"{op['a']} ~ {op['b']} modulo {sorted(K)} not reported", idx, op)
                elif not K:
                    # the user-facing query: Procedure.is_eq is the tracker's answer modulo no field
                    try:
                        api = bool(procs[op["a"]].is_eq(procs[op["b"]]))
                    except Exception as e:  # noqa: BLE001
                        api = f"raised {type(e).__name__}"
                    probes.hit("is_eq_queried")
                    if api != got:
                        fail("is_eq:disagrees-with-tracker", f"{op['a']}.is_eq({op['b']}) = {api} but the tracker (and the closure) say {got}", idx, op)
            else:
                is_eqv, keys = PE.get_strictest_eqv_proc(a, b)
                keys = frozenset(keyname(s) for s in keys)
                lo_e, lo_k = model.strictest(op["a"], op["b"], False)
                hi_e, hi_k = model.strictest(op["a"], op["b"], True) if model.has_optional() else (lo_e, lo_k)
                log.log("strictest", a=op["a"], b=op["b"], eqv=bool(is_eqv), keys=sorted(keys))
                probes.hit("strictest_eqv" if is_eqv else "strictest_not")
                if is_eqv and not hi_e:
                    fail("strictest:over-reports-equivalence", f"{op['a']} and {op['b']} have different origin", idx, op)
                elif (not is_eqv) and lo_e:
                    fail("strictest:under-reports-equivalence", "", idx, op)
                elif is_eqv:
                    must = hi_k if hi_e else frozenset()
                    may = lo_k if lo_e else frozenset(model.all_keys())
                    if not must <= keys:
                        fail("strictest:missing-key", f"reported {sorted(keys)}, closure requires {sorted(must)}", idx, op)
                    elif not keys <= may:
                        fail("strictest:spurious-key", f"reported {sorted(keys)}, closure allows {sorted(may)}", idx, op)
            if viol:
                break
            continue
        if nm == "gc":
            collect()
            faults["gc"] += 1
            continue
        if nm == "forget":
            if op["on"] in procs and op["on"] not in ("g", "h", "top", "top2", "mat"):
                del procs[op["on"]]
                collect()
                faults["forget"] += 1
            continue
        if op["on"] not in procs:
            continue
        p = procs[op["on"]]
        if nm == "unsafe_assert_eq":
            if op["other"] in procs:
                p.unsafe_assert_eq(procs[op["other"]])
                model.add_edge(op["on"], op["other"], frozenset())
                log.log("assert", a=op["on"], b=op["other"])
            continue
        observed.clear()
        cr = op.get("crash")
        call = lambda: do(op, p)  # noqa: E731
        crashed = False
        if cr:
            faults["crash_planned"] += 1
            ref, n = crash.run(lambda: None)
            # count events of the real call on a throw-away basis is impossible (side effects
            # in the tracker), so the crash index is drawn from a fixed range
            k = 1 + int(cr["u"] * 4000)
            out, _ = crash.run(call, k=k, exc=make_crash_exc(cr["flavour"]))
            if crash.fired:
                faults["crash_fired"] += 1
                crashed = True
        else:
            try:
                out = ("ret", call())
            except Exception as e:
                out = ("exc", e)
        log.log("op", op=nm, on=op["on"], o=out[0])
        if out[0] != "ret":
            if crashed and observed:
                # the tracker may have been updated before the crash: optional edge to a ghost
                ghost = ("ghost", idx)
                model.add_node(ghost)
                model.add_edge(op["on"], ghost, observed[-1], optional=True)
            probes.hit("op_rejected")
            continue
        probes.hit("op_accepted_" + nm)
        res = out[1]
        sub = None
        if isinstance(res, tuple):
            res, sub = res
        if not isinstance(res, Procedure) or res is p:
            continue
        procs[op["out"]] = res
        model.add_node(op["out"])
        K_obs = observed[-1] if observed else None
        if nm in ("partial_eval", "add_assertion", "transpose"):
            # new origin: no edge
            if K_obs is not None:
                fail("signature-changing-op-keeps-provenance", f"{nm} registered a derivation step", idx, op)
                break
        elif nm in ("rename", "simplify", "insert_pass", "extract_subproc", "set_memory"):
            if K_obs is None:
                fail("derivation-not-recorded", f"{nm} did not register a derivation step", idx, op)
                break
            if K_obs:
                fail("spurious-mod-set", f"{nm} reported {sorted(K_obs)}", idx, op)
                break
            model.add_edge(op["on"], op["out"], frozenset())
        else:
            if K_obs is None:
                fail("derivation-not-recorded", f"{nm} did not register a derivation step", idx, op)
                break
            Kexp = K_obs
            if nm == "call_eqv":
                # the new callee must be in the closure of the old one, and the step disturbs at least
                # nothing outside what separates the two callees
                probes.hit("call_eqv_accepted")
                old = [k for k, v in procs.items() if v._loopir_proc is ctx.get("old_callee")]
                if old and not model.unv(old[0], op["callee"], True):
                    fail("call_eqv:accepts-unrelated-callee", f"{old[0]} and {op['callee']} are not connected by recorded steps", idx, op)
                    break
                if old and not model.has_optional():
                    # fields that separate the two callees and that nothing in the caller (or any of its
                    # callees) ever writes cannot be shadowed, so the step must report them
                    e_, sep = model.strictest(old[0], op["callee"], False)
                    written = _written_fields(res._loopir_proc, skip=procs[op["callee"]]._loopir_proc)
                    must = frozenset(k for k in sep if k not in written)
                    if e_ and not must <= K_obs:
                        fail("call_eqv:drops-mod-set", f"callees differ modulo {sorted(sep)}, caller never overwrites {sorted(must)}, step recorded modulo {sorted(K_obs)}", idx, op)
                        break
            model.add_edge(op["on"], op["out"], Kexp)
        if sub is not None:
            procs[op["out"] + "s"] = sub
            model.add_node(op["out"] + "s")
    crash.uninstall()
    API.derive_proc = orig_derive
    return {
        "violation": viol,
        "digest": log.digest(),
        "n_events": log.n,
        "probes": dict(probes),
        "faults": faults,
        "n_edges": len(model.edges),
        "n_keys": len(model.all_keys()),
        "events": log.events if log_keep else None,
    }

def gen_history(seed, cfg):
    return []
def run_history(ops, log_keep=False):
    from .kernel import EventLog
    return {"violation": None, "digest": EventLog().digest(), "n_events": 0, "probes": {}, "faults": {}, "n_edges": 0, "n_keys": 0, "events": None}

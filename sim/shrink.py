"""Delta debugging over recorded op/fault lists."""
from __future__ import annotations


def ddmin(items: list, test, max_tests: int = 400) -> list:
    """Return a 1-minimal (w.r.t. removal of chunks) sublist of `items` for
    which test(sublist) is True.  `test(items)` is assumed True."""
    n = 2
    budget = [max_tests]

    def t(x):
        if budget[0] <= 0:
            return False
        budget[0] -= 1
        return test(x)

    while len(items) >= 2:
        chunk = max(1, len(items) // n)
        subsets = [items[i : i + chunk] for i in range(0, len(items), chunk)]
        reduced = False
        # try complements (remove one chunk)
        for i in range(len(subsets)):
            comp = [x for j, s in enumerate(subsets) if j != i for x in s]
            if comp and t(comp):
                items = comp
                n = max(n - 1, 2)
                reduced = True
                break
        if not reduced:
            if n >= len(items):
                break
            n = min(len(items), n * 2)
        if budget[0] <= 0:
            break
    # final single-removal pass
    i = 0
    while i < len(items) and len(items) > 1 and budget[0] > 0:
        cand = items[:i] + items[i + 1 :]
        if t(cand):
            items = cand
        else:
            i += 1
    return items

"""Seeded generator of Exo source text.  Programs are assembled from motifs that
scheduling primitives can bite on; accesses are in bounds by construction most
of the time and the real front end is the filter (rejections are counted)."""
from __future__ import annotations

LIB_SRC = '''
@config
class CfgA:
    a: f32
    b: f32
    k: index
    flag: bool


@config
class CfgB:
    a: f32
    s: f32


@proc
def vcopy(n: size, dst: [f32][n], src: [f32][n]):
    for i in seq(0, n):
        dst[i] = src[i]


@proc
def vaxpy(n: size, a: f32, dst: [f32][n], src: [f32][n]):
    for i in seq(0, n):
        dst[i] += a * src[i]


@proc
def vscale_cfg(n: size, dst: [f32][n]):
    for i in seq(0, n):
        dst[i] = dst[i] * CfgA.a


@proc
def set_cfg_b(v: f32):
    CfgA.b = v


@instr("ld4({dst_data}, {src_data});", "#include <sim_ld4.h>")
def ld4(dst: [f32][4] @ DRAM, src: [f32][4] @ DRAM):
    assert stride(src, 0) == 1
    assert stride(dst, 0) == 1
    for i in seq(0, 4):
        dst[i] = src[i]


@instr("add4({dst_data}, {a_data}, {b_data});", "#include <sim_add4.h>")
def add4(dst: [f32][4] @ DRAM, a: [f32][4] @ DRAM, b: [f32][4] @ DRAM):
    assert stride(dst, 0) == 1
    for i in seq(0, 4):
        dst[i] = a[i] + b[i]


@instr("fma4({dst_data}, {a_data}, {b_data});", "#define SIM_FMA4 1")
def fma4(dst: [f32][4] @ DRAM, a: [f32][4] @ DRAM, b: [f32][4] @ DRAM):
    for i in seq(0, 4):
        dst[i] += a[i] * b[i]


@instr("zero4({dst_data});", "#include <sim_zero4.h>")
def zero4(dst: [f32][4] @ DRAM):
    for i in seq(0, 4):
        dst[i] = 0.0


@instr("ldn({dst_data}, {src_data}, {m});", "static int sim_ldn_used;")
def ldn(m: size, dst: [f32][4] @ DRAM, src: [f32][m] @ DRAM):
    assert m <= 4
    for i in seq(0, 4):
        if i < m:
            dst[i] = src[i]
'''

LIB_PROCS = ["vcopy", "vaxpy", "vscale_cfg", "set_cfg_b", "ld4", "add4", "fma4", "zero4", "ldn"]
LIB_CONFIGS = ["CfgA", "CfgB"]


class G:
    def __init__(self, rng, cfg):
        self.r = rng
        self.cfg = cfg
        self.lines = []
        self.used = set()
        self.tmp = 0
        self.want_cfg = cfg.get("configs", False)
        self.want_calls = cfg.get("calls", True)
        self.want_par = cfg.get("par", False)
        self.asserts_extra = set()

    def fresh(self, base):
        self.tmp += 1
        return f"{base}{self.tmp}"

    def use(self, *names):
        self.used.update(names)

    def const(self):
        return self.r.choice(["0.0", "1.0", "2.0", "0.5", "3.0", "-1.0"])

    def scalar_src(self):
        r = self.r.random()
        if r < 0.25:
            self.use("s")
            return "s"
        if self.want_cfg and r < 0.45:
            return self.r.choice(["CfgA.a", "CfgA.b", "CfgB.a"])
        return self.const()

    def loop_kw(self):
        if self.want_par and self.r.random() < 0.5:
            return "par"
        return "seq"

    # ---- motifs: each returns a list of source lines at indentation 0 ---- #

    def m_elementwise(self):
        r = self.r
        self.use("x", "y")
        op = r.choice(["=", "=", "+="])
        rhs = r.choice(
            [
                f"x[i] * {self.scalar_src()}",
                f"x[i] + {self.scalar_src()}",
                f"{self.scalar_src()} * x[i] + {self.const()}",
                "x[i]",
                "x[i] * x[i]",
                f"select(x[i], {self.const()}, x[i], {self.const()})",
                "relu(x[i])",
            ]
        )
        return [f"for i in {self.loop_kw()}(0, n):", f"    y[i] {op} {rhs}"]

    def m_nest2d(self):
        r = self.r
        self.use("A", "C")
        op = r.choice(["=", "+="])
        terms = ["A[i, j]"]
        if r.random() < 0.5:
            self.use("B")
            terms.append("B[j]")
        if r.random() < 0.4:
            self.use("x")
            terms.append("x[i]")
        rhs = (" * " if r.random() < 0.5 else " + ").join(terms)
        if r.random() < 0.3:
            rhs += f" + {self.scalar_src()}"
        order = r.random() < 0.7
        l1 = f"for i in {self.loop_kw()}(0, n):" if order else "for j in seq(0, m):"
        l2 = "for j in seq(0, m):" if order else "for i in seq(0, n):"
        return [l1, "    " + l2, f"        C[i, j] {op} {rhs}"]

    def m_temp(self):
        r = self.r
        self.use("x", "y")
        t = self.fresh("t")
        out = [f"{t}: f32[n]"]
        out += ["for i in seq(0, n):", f"    {t}[i] = x[i] * {self.const()}"]
        if r.random() < 0.4:
            out += ["for i in seq(0, n):", f"    {t}[i] += {self.scalar_src()}"]
        out += ["for i in seq(0, n):", f"    y[i] {r.choice(['=', '+='])} {t}[i] + {self.const()}"]
        return out

    def m_accum(self):
        r = self.r
        self.use("A", "y")
        acc = self.fresh("acc")
        inner = r.choice([f"{acc} += A[i, j]", f"{acc} += A[i, j] * {self.scalar_src()}"])
        if r.random() < 0.3:
            self.use("B")
            inner = f"{acc} += A[i, j] * B[j]"
        body = [f"{acc}: f32", f"{acc} = 0.0", "for j in seq(0, m):", f"    {inner}", f"y[i] = {acc}"]
        if r.random() < 0.5:
            return ["for i in seq(0, n):"] + ["    " + l for l in body]
        # alloc outside the loop (sink_alloc / lift candidates)
        return [f"{acc}: f32", "for i in seq(0, n):"] + ["    " + l for l in body[1:]]

    def m_stencil(self):
        r = self.r
        self.use("x", "y")
        if r.random() < 0.5:
            return ["for i in seq(1, n):", f"    y[i] = x[i - 1] + x[i] * {self.const()}"]
        if r.random() < 0.5:
            return ["for i in seq(0, n - 1):", "    y[i] = x[i] + x[i + 1]"]
        return ["for i in seq(0, n):", "    if i + 1 < n:", "        y[i] = x[i + 1]", "    else:", "        y[i] = x[i]"]

    def m_guard(self):
        r = self.r
        self.use("x", "y")
        c = r.choice(["i < n / 2", "i < 2", "i >= 1", "2 * i < n", "i % 2 == 0"])
        if r.random() < 0.3:
            self.use("flag")
            c = "flag"
        if self.want_cfg and r.random() < 0.3:
            c = r.choice(["i < CfgA.k", "CfgA.flag"])
        out = ["for i in seq(0, n):", f"    if {c}:", f"        y[i] = x[i] * {self.const()}"]
        if r.random() < 0.6:
            out += ["    else:", f"        y[i] = {self.const()}"]
        return out

    def m_small(self):
        r = self.r
        self.use("y")
        t = self.fresh("v")
        src = self.const()
        out = [f"{t}: f32[4]", "for k in seq(0, 4):", f"    {t}[k] = {src}"]
        if r.random() < 0.5:
            out += ["for k in seq(0, 4):", f"    {t}[k] += {self.scalar_src()}"]
        out += ["for k in seq(0, 4):", f"    y[0] += {t}[k]"]
        return out

    def m_vec4(self):
        """loops of extent divisible by 4 over 4*q sized buffers: targets for
        divide_loop + replace with ld4/add4/fma4."""
        r = self.r
        self.use("q", "P", "Q")
        kind = r.choice(["copy", "add", "fma"])
        if kind == "copy":
            return ["for i in seq(0, 4 * q):", "    Q[i] = P[i]"]
        if kind == "add":
            self.use("R4")
            return ["for i in seq(0, 4 * q):", "    Q[i] = P[i] + R4[i]"]
        self.use("R4")
        return ["for i in seq(0, 4 * q):", "    Q[i] += P[i] * R4[i]"]

    def m_call(self):
        r = self.r
        k = r.random()
        if k < 0.35:
            self.use("x", "y")
            return ["vcopy(n, y[0:n], x[0:n])"]
        if k < 0.6:
            self.use("A", "C")
            return ["for i in seq(0, n):", "    vcopy(m, C[i, 0:m], A[i, 0:m])"]
        if k < 0.85:
            self.use("x", "y", "s")
            return ["vaxpy(n, s, y[0:n], x[0:n])"]
        if self.want_cfg:
            self.use("y")
            return ["vscale_cfg(n, y[0:n])"]
        self.use("C", "B", "s")
        return ["for i in seq(0, n):", "    vaxpy(m, s, C[i, 0:m], B[0:m])"]

    def m_config(self):
        r = self.r
        self.use("x", "y", "s")
        k = r.random()
        if k < 0.3:
            return [f"CfgA.a = s", "for i in seq(0, n):", "    y[i] = x[i] * CfgA.a"]
        if k < 0.5:
            return ["for i in seq(0, n):", "    y[i] = x[i] + CfgB.a", f"CfgB.a = {self.const()}"]
        if k < 0.7:
            return ["set_cfg_b(s)", "for i in seq(0, n):", "    y[i] += CfgA.b"]
        if k < 0.85:
            return [f"CfgA.a = {self.const()}", f"CfgA.a = s", "vscale_cfg(n, y[0:n])"]
        return ["for i in seq(0, n):", "    y[i] = x[i]", "CfgB.s = s"]

    def m_window(self):
        self.use("A", "y")
        w = self.fresh("w")
        return ["for i in seq(0, n):", f"    {w} = A[i, 0:m]", "    for j in seq(0, m):", f"        y[i] += {w}[j]"]

    def m_two_loops(self):
        """adjacent loops with equal bounds (fuse) or abutting bounds (join)."""
        r = self.r
        self.use("x", "y")
        if r.random() < 0.6:
            self.use("z")
            return ["for i in seq(0, n):", f"    y[i] = x[i] * {self.const()}", "for i in seq(0, n):", f"    z[i] = y[i] + {self.const()}"]
        return ["for i in seq(0, n / 2):", "    y[i] = x[i]", "for i in seq(n / 2, n):", "    y[i] = x[i]"]

    def m_reduce_consts(self):
        self.use("x", "y")
        c = self.const()
        return ["for i in seq(0, n):", f"    y[0] += {c} * x[i]"] if self.r.random() < 0.5 else [
            "for i in seq(0, n):",
            "    y[i] = 0.0",
            f"    y[i] += x[i] * {c}",
        ]

    def m_repeat(self):
        """loop whose body ignores the iterator and is idempotent (remove_loop /
        add_loop / divide_with_recompute targets), with zero and non-zero lower
        bounds and possibly empty ranges."""
        r = self.r
        self.use("x", "y")
        lo, hi = r.choice([("0", "n"), ("1", "n"), ("0", "n - 1"), ("0", "2"), ("1", "m"), ("n / 2", "n"), ("0", "m")])
        body = r.choice(["y[0] = x[0]", f"y[0] = {self.const()}", "y[n - 1] = x[0] * 2.0"])
        return [f"for rr in seq({lo}, {hi}):", f"    {body}"]

    def m_padded_acc(self):
        """buffer whose upper lanes are only accumulated into (Check_Bounds must
        see reduce accesses when the buffer is resized / staged)."""
        self.use("x", "y")
        t = self.fresh("pad")
        return [
            f"{t}: f32[8]",
            "for k in seq(0, 4):",
            f"    {t}[k] = x[0] * {self.const()}",
            "for k in seq(0, 8):",
            f"    {t}[k] += 1.0",
            "for k in seq(0, 4):",
            f"    y[0] += {t}[k]",
        ]

    def m_row_alloc(self):
        """allocation whose extent depends on an enclosing loop variable."""
        self.use("A", "C")
        t = self.fresh("row")
        return [
            "for i in seq(0, n):",
            "    for j in seq(0, m):",
            f"        {t}: f32[j + 1]",
            f"        {t}[j] = A[i, j] * {self.const()}",
            f"        C[i, j] = {t}[j]",
        ]

    def m_masked(self):
        """masked copy with an else branch (instances / non-instances of ldn)."""
        self.use("B", "y")
        if self.r.random() < 0.7:
            # without it the mask argument may exceed what ldn's own assertion allows
            self.asserts_extra.add("assert m <= 4")
        t = self.fresh("v")
        cond = self.r.choice(["k < m", "k < m", "k + 1 == m", "k + 1 == m", "k + 1 <= m", "m > k"])
        out = [f"{t}: f32[4]", "for k in seq(0, 4):", f"    if {cond}:", f"        {t}[k] = B[k]"]
        if self.r.random() < 0.6:
            out += ["    else:", f"        {t}[k] = {self.const()}"]
        elif self.r.random() < 0.7:
            # lanes the mask leaves alone hold defined values, so a wrong mask is observable
            out[1:1] = ["for k in seq(0, 4):", f"    {t}[k] = {self.const()}"]
        out += ["for k in seq(0, 4):", f"    y[0] += {t}[k]"]
        return out

    def m_shift_copy(self):
        self.use("y")
        if self.r.random() < 0.5:
            return ["for i in seq(0, n - 1):", "    y[i + 1] = y[i]"]
        self.use("x")
        return ["for i in seq(0, n - 1):", "    y[i] = x[i + 1]"]

    def m_else_alloc(self):
        """allocations inside else branches; provably true / false conditions."""
        r = self.r
        self.use("x", "y")
        c = r.choice(["i < n / 2", "n + 1 < 1", "n >= 1", "i >= 1", "flag"])
        if c == "flag":
            self.use("flag")
        t = self.fresh("tt")
        out = ["for i in seq(0, n):", f"    if {c}:", f"        y[i] = x[i] * {self.const()}", "    else:",
               f"        {t}: f32", f"        {t} = x[i]", f"        y[i] = {t} + {self.const()}", f"    y[i] += {self.const()}"]
        if r.random() < 0.4:
            out += ["for i in seq(0, n):", f"    y[i] += x[i]"]
        return out

    def m_two_ifs(self):
        r = self.r
        self.use("x", "y")
        c = r.choice(["flag", "n > 2", "m < n"])
        if c == "flag":
            self.use("flag")
        out = [f"if {c}:", "    y[0] = x[0]", f"if {c}:", f"    y[n - 1] = x[0] * {self.const()}"]
        if r.random() < 0.5:
            out[1:2] = ["    y[0] = x[0]"]
            out += [f"y[0] += {self.const()}"]
        out += ["for i in seq(0, n):", "    y[i] += x[i]"]
        return out

    def m_cfg_rwo(self):
        """write - read (in control) - overwrite of an index-typed config field."""
        self.use("x", "y")
        a, b = self.r.choice([("3", "1"), ("2", "5"), ("0", "4")])
        return [f"CfgA.k = {a}", "for i in seq(0, n):", "    if i < CfgA.k:", f"        y[i] = x[i] * {self.const()}", f"CfgA.k = {b}"]

    def m_cfg_cond(self):
        """write - conditional overwrite - read of a config field: the read is shadowed only
        on the path that takes the branch."""
        r = self.r
        self.use("x", "y", "flag")
        a, b = r.choice([("1", "3"), ("4", "0"), ("2", "5")])
        cond = r.choice(["flag", "n > 2", "m < n"])
        first = r.choice([[f"CfgA.k = {a}"], [f"CfgA.k = {a}"], []])
        mid = [f"if {cond}:", f"    CfgA.k = {b}"]
        if r.random() < 0.3:
            mid += ["else:", "    pass"]
        use = r.choice([
            ["for i in seq(0, n):", "    if i < CfgA.k:", f"        y[i] = x[i] * {self.const()}"],
            ["if CfgA.k < n:", "    y[0] = x[0]"],
        ])
        tail = r.choice([[], [f"CfgA.k = {a}"]])
        return first + mid + use + tail

    def m_cfg_callee(self):
        """config written in a callee and read afterwards in the caller."""
        self.use("x", "y", "s")
        if self.r.random() < 0.5:
            return ["set_cfg_b(s)", "for i in seq(0, n):", "    y[i] = x[i] + CfgA.b"]
        return ["set_cfg_b(s)", "vcopy(n, y[0:n], x[0:n])", "for i in seq(0, n):", "    y[i] += CfgA.b"]

    def m_instr_calls(self):
        """direct calls to several library instructions (their global C
        fragments are emitted in the C file)."""
        r = self.r
        self.use("q", "P", "Q", "R4")
        calls = r.sample(
            ["ld4(Q[4 * io:4 * io + 4], P[4 * io:4 * io + 4])", "add4(Q[4 * io:4 * io + 4], P[4 * io:4 * io + 4], R4[4 * io:4 * io + 4])",
             "fma4(Q[4 * io:4 * io + 4], P[4 * io:4 * io + 4], R4[4 * io:4 * io + 4])", "zero4(Q[4 * io:4 * io + 4])"],
            r.randint(2, 4),
        )
        return ["for io in seq(0, q):"] + ["    " + c for c in calls]

    def m_sliding(self):
        """sliding window handed to a callee with its own loop variable `i`."""
        self.use("y")
        self.asserts_extra.add("assert n > 4")
        return ["for i in seq(0, n - 4):", "    zero4(y[i:i + 4])"] if self.r.random() < 0.5 else [
            "for i in seq(0, n - 4):", "    vcopy(4, y[i:i + 4], y[i:i + 4])" if False else "    zero4(y[i + 1:i + 5])"]

    def m_temp2d(self):
        """constant-extent 2-D temporaries (unroll_buffer, mult_dim, rearrange_dim,
        divide_dim, reuse_buffer, delete_buffer)."""
        r = self.r
        self.use("y")
        t = self.fresh("g")
        out = [f"{t}: f32[4, 2]", "for k in seq(0, 4):", "    for l in seq(0, 2):", f"        {t}[k, l] = {self.const()}",
               "for k in seq(0, 4):", "    for l in seq(0, 2):", f"        y[0] += {t}[k, l]"]
        if r.random() < 0.5:
            u = self.fresh("h")
            out += [f"{u}: f32[4, 2]", "for k in seq(0, 4):", "    for l in seq(0, 2):", f"        {u}[k, l] = 1.0",
                    "for k in seq(0, 4):", f"    y[0] += {u}[k, 0]"]
        if r.random() < 0.3:
            out += [f"{self.fresh('unused')}: f32[4]"]
        return out

    def m_prefix(self):
        """running sum: reduce, read of the running value, reduce again."""
        r = self.r
        self.use("x", "y")
        if r.random() < 0.6:
            acc = self.fresh("run")
            out = [f"{acc}: f32", f"{acc} = 0.0", "for i in seq(0, n):", f"    {acc} += x[i]", f"    y[i] = {acc}"]
            if r.random() < 0.7:
                out.append(f"    {acc} += {self.const()}")
            return out
        self.use("z")
        out = ["for i in seq(0, n):", "    y[0] += x[i]", "    z[i] = y[0]"]
        if r.random() < 0.7:
            out.append(f"    y[0] += {self.const()}")
        return out

    def m_bcast(self):
        """scalar temporary set from a row/column value inside a 2-D nest and used by the
        following statement (multi-level fission / lift_alloc / reorder_loops targets: the
        temporary is invariant in one loop and varies with the other)."""
        r = self.r
        self.use("A", "C")
        t = self.fresh("bt")
        src = r.choice(["x[i]", "B[j]", "A[i, j]", "x[i] * 2.0"])
        if "x[" in src:
            self.use("x")
        if "B[" in src:
            self.use("B")
        use = r.choice([f"C[i, j] = {t}", f"C[i, j] = {t} * A[i, j]", f"C[i, j] += {t}"])
        where = r.choice(["out", "i", "j"])
        inner = [f"{t} = {src}", use]
        if r.random() < 0.3:
            inner.append(f"{t} = 0.0")
        if where == "j":
            inner = [f"{t}: f32"] + inner
        body_i = ["for j in seq(0, m):"] + ["    " + l for l in inner]
        if where == "i":
            body_i = [f"{t}: f32"] + body_i
        out = ["for i in seq(0, n):"] + ["    " + l for l in body_i]
        if where == "out":
            out = [f"{t}: f32"] + out
        return out

    def m_triangular(self):
        """triangular nests: the inner bounds mention the outer variable (reorder_loops /
        lift_scope must refuse, divide/cut/shift must keep the dependence)."""
        r = self.r
        self.use("x", "y")
        lo, hi = r.choice([("i", "n"), ("0", "i + 1"), ("i", "n"), ("i + 1", "n"), ("0", "i")])
        body = r.choice(["y[j] += x[i]", "y[i] += x[j]", f"y[j] = x[i] * {self.const()}"])
        return ["for i in seq(0, n):", f"    for j in seq({lo}, {hi}):", f"        {body}"]

    def m_nested_if(self):
        """an `if` nested directly in the then- or else-branch of another, with and without
        else parts (lift_scope / specialize / eliminate_dead_code / fuse targets)."""
        r = self.r
        self.use("x", "y", "flag")
        outer = r.choice(["n > 2", "m < n", "i < 2", "i % 2 == 0"])
        inner = r.choice(["flag", "i >= 1", "n > 3"])
        a, b, c = (f"y[i] = x[i] * {self.const()}", f"y[i] = {self.const()}", f"y[i] += {self.const()}")
        inner_if = [f"if {inner}:", f"    {a}"]
        if r.random() < 0.5:
            inner_if += ["else:", f"    {b}"]
        if r.random() < 0.5:
            body = [f"if {outer}:"] + ["    " + l for l in inner_if]
            if r.random() < 0.6:
                body += ["else:", f"    {c}"]
        else:
            body = [f"if {outer}:", f"    {c}", "else:"] + ["    " + l for l in inner_if]
        return ["for i in seq(0, n):"] + ["    " + l for l in body]

    def m_libshape(self):
        """loops shaped like the bodies of the library procedures (vcopy / vaxpy / zero) but with
        zero and non-zero lower bounds and shortened ranges: instances and near-instances for replace."""
        r = self.r
        self.use("x", "y")
        lo, hi = r.choice([("0", "n"), ("1", "n"), ("0", "n - 1"), ("2", "n"), ("n / 2", "n"), ("0", "n")])
        if lo == "2":
            self.asserts_extra.add("assert n > 2")
        kind = r.choice(["copy", "axpy", "copy"])
        if kind == "copy":
            return [f"for i in seq({lo}, {hi}):", "    y[i] = x[i]"]
        self.use("s")
        return [f"for i in seq({lo}, {hi}):", "    y[i] += s * x[i]"]

    def m_col4(self):
        """4-element loops over a COLUMN of a 2-D buffer (stride m, not 1): near-instances of the
        unit-stride instructions ld4 / add4 / fma4."""
        r = self.r
        self.use("A", "y")
        self.asserts_extra.add("assert n >= 4")
        t = self.fresh("c")
        kind = r.choice(["ld", "ld", "st", "add"])
        if kind == "ld":
            body = [f"{t}: f32[4]", "for k in seq(0, 4):", f"    {t}[k] = A[k, 0]", "for k in seq(0, 4):", f"    y[k] += {t}[k]"]
        elif kind == "st":
            self.use("C")
            body = [f"{t}: f32[4]", "for k in seq(0, 4):", f"    {t}[k] = y[k]", "for k in seq(0, 4):", f"    C[k, 0] = {t}[k]"]
        else:
            self.use("C")
            body = ["for k in seq(0, 4):", "    C[k, 0] = A[k, 0] + y[k]"]
        return body

    def m_fold(self):
        self.use("x", "y")
        c = self.const()
        return self.r.choice([
            ["for i in seq(0, n):", "    y[i] = y[i] + x[i]"],
            ["for i in seq(0, n):", f"    y[i] = x[i] * {c} + y[i]"],
            ["y[0] = 0.0", "for i in seq(0, n):", f"    y[0] += {c} * x[i]"],
            ["for i in seq(0, n):", f"    y[i] = x[i] + ({c} + x[i])"],
        ])

    MOTIFS = [
        "elementwise", "nest2d", "temp", "accum", "stencil", "guard", "small", "vec4", "call", "window",
        "two_loops", "reduce_consts", "repeat", "padded_acc", "row_alloc", "masked", "shift_copy", "else_alloc",
        "two_ifs", "instr_calls", "sliding", "temp2d", "fold", "prefix", "bcast", "triangular", "nested_if", "libshape", "col4",
    ]

    # ops whose side conditions are decided by what the motif contains: the session
    # generator draws part of its ops from the union over the picked motifs, so that
    # (motif, primitive) pairs near an accept/reject boundary are sampled far more
    # often than under a uniform choice among all 62 primitives
    AFFINITY = {
        "elementwise": ["divide_loop", "cut_loop", "shift_loop", "stage_mem", "bind_expr", "unroll_loop", "divide_with_recompute"],
        "nest2d": ["reorder_loops", "stage_mem", "mult_loops", "divide_loop", "lift_scope", "fission", "bind_expr", "parallelize_loop"],
        "temp": ["fuse", "resize_dim", "expand_dim", "reuse_buffer", "delete_buffer", "sink_alloc", "inline_assign", "merge_writes", "stage_mem", "divide_dim", "set_memory"],
        "accum": ["fission", "autofission", "lift_alloc", "sink_alloc", "autolift_alloc", "reorder_loops", "lift_reduce_constant", "stage_mem", "expand_dim", "remove_loop"],
        "stencil": ["shift_loop", "cut_loop", "join_loops", "divide_loop", "stage_mem", "lift_scope", "specialize", "eliminate_dead_code"],
        "guard": ["lift_scope", "specialize", "eliminate_dead_code", "fission", "cut_loop", "divide_loop", "stage_mem", "reorder_stmts"],
        "small": ["fuse", "unroll_loop", "unroll_buffer", "resize_dim", "merge_writes", "fold_into_reduce", "inline_assign", "reuse_buffer", "delete_buffer", "stage_mem"],
        "vec4": ["divide_loop", "replace", "stage_mem", "mult_loops", "cut_loop"],
        "call": ["inline", "call_eqv", "extract_subproc", "inline_window", "insert_noop_call", "replace"],
        "window": ["inline_window", "reorder_stmts", "fission", "lift_scope", "stage_mem", "add_loop"],
        "two_loops": ["fuse", "join_loops", "reorder_stmts", "shift_loop", "cut_loop"],
        "reduce_consts": ["lift_reduce_constant", "merge_writes", "fold_into_reduce", "fission", "split_write", "stage_mem"],
        "repeat": ["remove_loop", "add_loop", "divide_with_recompute", "unroll_loop", "divide_loop", "cut_loop", "shift_loop"],
        "padded_acc": ["resize_dim", "expand_dim", "stage_mem", "divide_dim", "unroll_buffer", "reuse_buffer", "fuse", "join_loops"],
        "row_alloc": ["lift_alloc", "autolift_alloc", "divide_loop", "resize_dim", "expand_dim", "sink_alloc", "reorder_loops"],
        "masked": ["replace", "unroll_loop", "lift_scope", "specialize", "eliminate_dead_code", "fuse"],
        "shift_copy": ["shift_loop", "reorder_loops", "fission", "divide_loop", "stage_mem", "parallelize_loop", "unroll_loop"],
        "else_alloc": ["lift_alloc", "sink_alloc", "lift_scope", "eliminate_dead_code", "delete_buffer", "specialize", "fission", "fuse"],
        "two_ifs": ["fuse", "reorder_stmts", "lift_scope", "merge_writes", "eliminate_dead_code", "specialize", "add_loop"],
        "instr_calls": ["inline", "reorder_stmts", "fission", "call_eqv", "unroll_loop", "replace"],
        "sliding": ["inline", "inline_window", "simplify", "unroll_loop", "divide_loop", "parallelize_loop"],
        "temp2d": ["unroll_buffer", "mult_dim", "rearrange_dim", "divide_dim", "reuse_buffer", "delete_buffer", "resize_dim", "fuse", "expand_dim"],
        "fold": ["fold_into_reduce", "split_write", "merge_writes", "commute_expr", "left_reassociate_expr", "bind_expr"],
        "prefix": ["fission", "autofission", "fuse", "reorder_stmts", "reorder_loops", "stage_mem", "lift_scope", "divide_loop", "merge_writes"],
        "bcast": ["fission", "autofission", "lift_alloc", "sink_alloc", "autolift_alloc", "reorder_loops", "inline_assign", "expand_dim", "bind_expr", "lift_scope"],
        "triangular": ["reorder_loops", "lift_scope", "divide_loop", "cut_loop", "shift_loop", "fission", "unroll_loop", "mult_loops", "parallelize_loop", "remove_loop", "add_loop"],
        "nested_if": ["lift_scope", "specialize", "eliminate_dead_code", "fission", "reorder_stmts", "merge_writes", "divide_loop", "cut_loop", "unroll_loop"],
        "libshape": ["replace", "cut_loop", "shift_loop", "divide_loop", "join_loops", "stage_mem", "extract_subproc"],
        "col4": ["replace", "stage_mem", "unroll_loop", "set_memory", "inline_window", "bind_expr"],
        "config": ["bind_config", "write_config", "delete_config", "reorder_stmts", "fission", "inline", "call_eqv", "fuse"],
        "cfg_rwo": ["delete_config", "write_config", "reorder_stmts", "bind_config", "fission", "lift_scope"],
        "cfg_cond": ["delete_config", "write_config", "bind_config", "reorder_stmts", "lift_scope", "eliminate_dead_code", "specialize"],
        "cfg_callee": ["inline", "call_eqv", "delete_config", "write_config", "reorder_stmts", "bind_config"],
    }

    # primitives that apply almost anywhere: paired with generic motifs in the strata
    GENERIC_OPS = ["rename", "make_instr", "set_precision", "set_window", "set_memory", "insert_pass", "delete_pass", "rewrite_expr",
                   "commute_expr", "left_reassociate_expr", "simplify", "insert_noop_call", "add_unsafe_guard", "mult_loops",
                   "parallelize_loop", "extract_subproc", "eliminate_dead_code", "divide_dim", "mult_dim", "rearrange_dim"]
    GENERIC_MOTIFS = ["elementwise", "nest2d", "temp", "guard", "temp2d", "accum"]

    @classmethod
    def strata(cls, with_cfg=False, generic=True):
        """(motif, primitive) pairs for stratified sessions."""
        cfg_m = ("config", "cfg_rwo", "cfg_callee", "cfg_cond")
        out = set()
        for m, ops in cls.AFFINITY.items():
            if m in cfg_m and not with_cfg:
                continue
            for o in ops:
                out.add((m, o))
        if generic:
            for o in cls.GENERIC_OPS:
                for m in cls.GENERIC_MOTIFS:
                    out.add((m, o))
        return sorted(out)

    def program(self, name="p"):
        r = self.r
        motifs = list(self.MOTIFS)
        if self.want_cfg:
            motifs += ["config", "config", "config", "cfg_rwo", "cfg_rwo", "cfg_callee", "cfg_callee", "cfg_cond", "cfg_cond"]
        if not self.want_calls:
            motifs.remove("call")
        if self.cfg.get("no_instr"):
            for m_ in ("instr_calls", "sliding"):
                if m_ in motifs:
                    motifs.remove(m_)
        n_m = r.choice([1, 2, 2, 3])
        body = []
        picked = []
        forced = list(self.cfg.get("motifs") or [])
        if forced:
            # stratified sessions: the named motif(s), sometimes followed by one more
            n_m = len(forced) + (1 if r.random() < 0.3 else 0)
        for k in range(n_m):
            m = forced[k] if k < len(forced) else r.choice(motifs)
            picked.append(m)
            body += getattr(self, "m_" + m)()
        # occasional wrapping of everything in an outer const loop or a guard
        if r.random() < 0.12:
            body = ["for rep in seq(0, 2):"] + ["    " + l for l in body]
        args = ["n: size", "m: size"]
        if "q" in self.used:
            args.append("q: size")
        if "flag" in self.used:
            args.append("flag: bool")
        decl = {
            "x": "x: f32[n]", "y": "y: f32[n]", "z": "z: f32[n]", "A": "A: f32[n, m]", "B": "B: f32[m]",
            "C": "C: f32[n, m]", "s": "s: f32", "P": "P: f32[4 * q]", "Q": "Q: f32[4 * q]", "R4": "R4: f32[4 * q]",
        }
        win = r.random() < 0.35
        for k in ["x", "y", "z", "A", "B", "C", "P", "Q", "R4", "s"]:
            if k in self.used:
                d = decl[k]
                if win and k in ("x", "A", "B") and r.random() < 0.6:
                    d = d.replace("f32[", "[f32][")
                args.append(d)
        asserts = []
        if r.random() < 0.3:
            asserts.append("assert n > 1")
        if r.random() < 0.15:
            asserts.append("assert n % 2 == 0")
        if r.random() < 0.15:
            asserts.append("assert m <= 6")
        asserts += sorted(self.asserts_extra)
        src = f"@proc\ndef {name}({', '.join(args)}):\n"
        for a in asserts:
            src += f"    {a}\n"
        for l in body:
            src += f"    {l}\n"
        return src, picked


def gen_program(rng, cfg, name="p"):
    g = G(rng, cfg)
    return g.program(name)

"""setup_cmd: verify that everything the checks need is present offline.
Nothing is downloaded or compiled."""
import os
import sys

here = os.path.dirname(os.path.dirname(os.path.abspath(__file__)))
sys.path[:0] = [here, os.path.join(os.environ.get("EXO_REPO", "/repo"), "src")]


def main():
    import z3
    import pysmt.shortcuts  # noqa: F401
    import exo
    from exo import proc  # noqa: F401
    import hypothesis  # noqa: F401

    assert sys.version_info >= (3, 12), "sys.monitoring (crash seam) needs Python 3.12"
    assert hasattr(sys, "monitoring")
    from sim.seams import CrashSeam
    from sim.kernel import SimCrash

    cs = CrashSeam(mark="/sim/")

    def f():
        x = 0
        for i in range(5):
            x += i
        return x

    out, n = cs.run(f)
    assert out == ("ret", 10)
    cs.uninstall()
    os.makedirs(os.path.join(here, "evidence"), exist_ok=True)
    os.makedirs(os.path.join(here, "replays"), exist_ok=True)
    print("selfcheck ok: python", sys.version.split()[0], "z3", z3.get_version_string(), "exo", os.path.dirname(exo.__file__))


if __name__ == "__main__":
    main()

"""pytest plugin: run the repository's own tests as harvested scheduling
sessions inside a simulated world (see sim/harvest.py)."""
from __future__ import annotations

import pytest

from sim import harvest


def pytest_configure(config):
    w = harvest.WORLD
    if w is not None:
        w.install()


def pytest_collection_modifyitems(session, config, items):
    w = harvest.WORLD
    if w is None:
        return
    keep, drop = [], []
    for it in items:
        (keep if w.want_test(it.nodeid) else drop).append(it)
    if drop:
        config.hook.pytest_deselected(items=drop)
    items[:] = w.order_tests(keep)


@pytest.hookimpl(hookwrapper=True)
def pytest_runtest_call(item):
    w = harvest.WORLD
    if w is not None:
        w.begin_test(item.nodeid)
    outcome = yield
    if w is not None:
        exc = outcome.excinfo
        w.end_test(item.nodeid, exc)


def pytest_runtest_logreport(report):
    w = harvest.WORLD
    if w is not None and report.when == "call":
        w.test_outcome(report.nodeid, report.outcome, str(report.longrepr)[-1500:] if report.failed else "")

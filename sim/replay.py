"""Replay a recorded violation exactly:  python -m sim.replay <file>

Exit 1 and prints `VIOLATION ... signature=<sig>` if the file's violation
reproduces, exit 0 if the scenario runs clean, exit 2 on harness trouble."""
from __future__ import annotations

import json
import os
import sys


def _engine_run(data):
    eng = data["engine"]
    if eng == "eqv-direct":
        from sim import eqv_sim

        return eqv_sim.run_history(data["ops"], log_keep=True)
    if eng == "eqv-api":
        from sim import eqv_api_sim

        return eqv_api_sim.run_history(data["ops"], log_keep=True)
    if eng == "par-sim":
        from sim import par_sim

        return par_sim.replay(data)
    if eng == "session":
        from sim import session

        return session.replay(data)
    if eng == "harvest":
        from sim import harvest

        return harvest.replay(data)
    if eng == "worlds":
        from sim import worlds

        return worlds.replay(data)
    raise SystemExit(f"unknown engine {eng}")


def main(argv=None):
    argv = argv if argv is not None else sys.argv[1:]
    if os.environ.get("PYTHONHASHSEED") != "0" and os.environ.get("_VERIF_REPLAY_BOOT") != "1":
        env = dict(os.environ)
        env["PYTHONHASHSEED"] = "0"
        env["_VERIF_REPLAY_BOOT"] = "1"
        env["EXO_VERIF_SIM"] = "1"
        here = os.path.dirname(os.path.dirname(os.path.abspath(__file__)))
        env["PYTHONPATH"] = os.pathsep.join([here, os.path.join(os.environ.get("EXO_REPO", "/repo"), "src"), env.get("PYTHONPATH", "")])
        os.execve(sys.executable, [sys.executable, "-m", "sim.replay"] + list(argv), env)
    path = argv[0]
    data = json.load(open(path))
    from sim.runner import run_one_forked

    if data["engine"] in ("session", "harvest", "worlds", "par-sim"):
        from checks import common

        common.preload()
        if data["engine"] == "session":
            common.warmup()
    r = run_one_forked(lambda _: _engine_run(data), 0, wall=1200)
    if r["status"] != "ok":
        print(f"replay harness problem: {r.get('error')}\n{r.get('trace','')}")
        return 2
    res = r["result"]
    v = res.get("violation")
    if v:
        print(f"VIOLATION property={data.get('property')} replay={path} signature={v['sig']}")
        print("  detail:", str(v.get("detail"))[:1500])
        if "-v" in argv and res.get("events"):
            for e in res["events"]:
                print("   ", json.dumps(e, sort_keys=True, default=str)[:300])
        return 1
    print(f"replay clean: property={data.get('property')} (recorded signature {data.get('signature')})")
    return 0


if __name__ == "__main__":
    sys.exit(main())

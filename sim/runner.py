"""Fork-per-run executor (seam S8).

The parent imports exo once and installs whatever seams the check wants; every
simulated run then executes in a freshly forked child, so process-global state
of exo (union-find universes, analysis caches, Sym counter, pysmt formula
manager, allocator state of StaticMemory classes) starts identical for every
run and nothing leaks from one run into the next.

fork() costs ~8 ms in this sandbox, so one forking parent saturates at ~100
runs/s.  `run_many` therefore starts `workers` lane processes; each lane pulls
the next run index from a shared counter, forks one child for it, waits for the
result (SIGKILL at the wall limit) and streams the record to the main process.

A run that exceeds its wall limit is reported as ``{"status":"inconclusive"}``
- never as pass and never as violation.
"""
from __future__ import annotations

import faulthandler
import gc
import json
import multiprocessing
import os
import select
import signal
import struct
import sys
import time
import traceback


def _write_all(fd, data: bytes):
    off = 0
    while off < len(data):
        off += os.write(fd, data[off : off + 65536])


def _encode(out):
    try:
        data = json.dumps(out, default=str).encode()
    except Exception as e:
        data = json.dumps({"status": "harness_error", "error": f"unserialisable result: {e}", "i": out.get("i")}).encode()
    return struct.pack("<I", len(data)) + data


def _child_batch(fn, items, wfd, wall, reset):
    """Child: run fn on every (i, arg) of the batch, streaming records."""
    try:
        for n, (i, arg) in enumerate(items):
            try:
                faulthandler.cancel_dump_traceback_later()
                if not os.environ.get("VERIF_NO_WATCHDOG"):
                    faulthandler.dump_traceback_later(wall + 5, exit=True)
            except Exception:
                pass
            t0 = time.monotonic()
            try:
                if n and reset is not None:
                    reset()
                res = fn(arg)
                out = {"status": "ok", "result": res}
            except BaseException as e:  # harness error inside the child
                out = {
                    "status": "harness_error",
                    "error": f"{type(e).__name__}: {e}",
                    "trace": traceback.format_exc()[-4000:],
                }
            out["i"] = i
            out["wall"] = time.monotonic() - t0
            _write_all(wfd, _encode(out))
    finally:
        os._exit(0)


def _run_batch_forked(fn, items, wall, reset, emit):
    """Fork one child for a batch of (i, arg); calls emit(record) per run.
    A run exceeding `wall` kills the child; the remaining runs of the batch are
    retried in a new child."""
    items = list(items)
    while items:
        rfd, wfd = os.pipe()
        pid = os.fork()
        if pid == 0:
            os.close(rfd)
            _child_batch(fn, items, wfd, wall, reset)
        os.close(wfd)
        buf = bytearray()
        last = time.monotonic()
        done = 0
        killed = False
        while True:
            left = wall + 2 - (time.monotonic() - last)
            if left <= 0:
                try:
                    os.kill(pid, signal.SIGKILL)
                except ProcessLookupError:
                    pass
                killed = True
                break
            r, _, _ = select.select([rfd], [], [], min(left, 1.0))
            if not r:
                continue
            chunk = os.read(rfd, 1 << 16)
            if not chunk:
                break
            buf += chunk
            while len(buf) >= 4:
                (n,) = struct.unpack("<I", bytes(buf[:4]))
                if len(buf) < 4 + n:
                    break
                out = json.loads(bytes(buf[4 : 4 + n]).decode())
                del buf[: 4 + n]
                emit(out)
                done += 1
                last = time.monotonic()
        os.close(rfd)
        try:
            os.waitpid(pid, 0)
        except ChildProcessError:
            pass
        if done < len(items):
            i, _arg = items[done]
            emit(
                {
                    "status": "inconclusive",
                    "error": f"wall limit {wall}s" if killed else "child died without a result",
                    "i": i,
                    "wall": time.monotonic() - last,
                }
            )
            done += 1
        items = items[done:]


def _lane(fn, args, counter, wfd, wall, deadline, batch, reset):
    def emit(out):
        _write_all(wfd, _encode(out))

    try:
        while True:
            if deadline is not None and time.monotonic() >= deadline:
                break
            with counter.get_lock():
                i = counter.value
                counter.value += batch
            if i >= len(args):
                break
            items = [(j, args[j]) for j in range(i, min(i + batch, len(args)))]
            _run_batch_forked(fn, items, wall, reset, emit)
    finally:
        os._exit(0)


def run_many(fn, args, workers=None, wall=60.0, on_result=None, deadline=None, batch=1, reset=None):
    """Run ``fn(arg)`` for every arg, each in its own forked child.

    ``batch`` > 1 runs that many consecutive runs in one forked child, calling
    ``reset()`` between them (fork() is a system-wide bottleneck here, ~100/s);
    the caller is responsible for `reset` restoring every piece of global state
    its runs depend on - the determinism self-tests check that it does.

    Returns records ``{"arg":…, "status": "ok"|"inconclusive"|"harness_error",
    "result":…, "wall":…}`` in the order of ``args``; runs not started before
    ``deadline`` (a time.monotonic value) are omitted."""
    workers = max(1, min(workers or os.cpu_count() or 4, len(list(args)) or 1))
    args = list(args)
    if not args:
        return []
    results = [None] * len(args)
    sys.stdout.flush()
    sys.stderr.flush()
    gc.collect()
    gc.freeze()
    ctx = multiprocessing.get_context("fork")
    counter = ctx.Value("l", 0)
    lanes = {}
    try:
        for _ in range(workers):
            rfd, wfd = os.pipe()
            pid = os.fork()
            if pid == 0:
                os.close(rfd)
                for fd in list(lanes):
                    try:
                        os.close(fd)
                    except OSError:
                        pass
                _lane(fn, args, counter, wfd, wall, deadline, batch, reset)
            os.close(wfd)
            lanes[rfd] = [pid, bytearray()]
        while lanes:
            ready, _, _ = select.select(list(lanes), [], [], 1.0)
            for rfd in ready:
                rec = lanes[rfd]
                chunk = os.read(rfd, 1 << 20)
                if not chunk:
                    os.close(rfd)
                    try:
                        os.waitpid(rec[0], 0)
                    except ChildProcessError:
                        pass
                    del lanes[rfd]
                    continue
                buf = rec[1]
                buf += chunk
                while len(buf) >= 4:
                    (n,) = struct.unpack("<I", bytes(buf[:4]))
                    if len(buf) < 4 + n:
                        break
                    out = json.loads(bytes(buf[4 : 4 + n]).decode())
                    del buf[: 4 + n]
                    i = out.pop("i")
                    out["arg"] = args[i]
                    results[i] = out
                    if on_result:
                        on_result(out)
    finally:
        for rfd, rec in lanes.items():
            try:
                os.kill(rec[0], signal.SIGKILL)
                os.waitpid(rec[0], 0)
            except Exception:
                pass
        gc.unfreeze()
    return [r for r in results if r is not None]


def run_one_forked(fn, arg, wall=120.0):
    got = []
    _run_batch_forked(fn, [(0, arg)], wall, None, got.append)
    out = got[0]
    out.pop("i", None)
    out["arg"] = arg
    return out

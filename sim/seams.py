"""Seams owned by the simulator (DESIGN §1.1).  All are installed from the
harness by rebinding attributes; nothing in /repo is edited.

S1/S2  solver verdicts      -> SolverSeam
S3     id-hash order        -> install_hash_salt
S5     symbol counter       -> set_sym_offset
S6     crash point          -> CrashSeam (sys.monitoring LINE events)
S7     garbage collection   -> gc_off / collect (scheduled only)
"""
from __future__ import annotations

import gc
import sys

from .kernel import SimCrash, SimInterrupt

EXO_MARK = "/exo/"

# --------------------------------------------------------------------------- #
# S6 crash points


class CrashSeam:
    """Counts Python LINE events executed inside exo source files and can raise
    an exception at the k-th one.  Event counts are a pure function of the code
    path, so "crash at event k of this call" replays exactly."""

    def __init__(self, mark: str = EXO_MARK, only_files: tuple | None = None):
        self.mark = mark
        self.only = only_files
        self.mon = sys.monitoring
        self.tool = None
        self.count = 0
        self.k = None
        self.exc = None
        self.fired = False
        self.fired_at = None
        self.active = False
        self.by_file = {}
        self.last_by_file = {}
        self.target = None

    def _want(self, fname: str) -> bool:
        if self.only is not None:
            return any(fname.endswith(s) for s in self.only)
        return self.mark in fname

    def _cb(self, code, line):
        if not self.active:
            return None
        if not self._want(code.co_filename):
            return self.mon.DISABLE
        self.count += 1
        fn_ = code.co_filename
        c = self.by_file.get(fn_, 0) + 1
        self.by_file[fn_] = c
        if self.fired:
            return None
        if (self.k is not None and self.count == self.k) or (self.target is not None and fn_ == self.target[0] and c == self.target[1]):
            self.fired = True
            self.fired_at = (code.co_filename.rsplit("/exo/", 1)[-1], line, code.co_name)
            raise self.exc

    def install(self):
        if self.tool is not None:
            return
        for tid in (4, 3, 5, 2):
            try:
                self.mon.use_tool_id(tid, "exo-verif-crash")
                self.tool = tid
                break
            except ValueError:
                continue
        if self.tool is None:
            raise RuntimeError("no free sys.monitoring tool id")
        self.mon.register_callback(self.tool, self.mon.events.LINE, self._cb)

    def uninstall(self):
        if self.tool is None:
            return
        self.mon.set_events(self.tool, 0)
        self.mon.register_callback(self.tool, self.mon.events.LINE, None)
        self.mon.free_tool_id(self.tool)
        self.tool = None

    def pick_stratified(self, u: float):
        """Crash point chosen per SOURCE FILE first (uniformly among the exo files the last counted run
        executed lines of), then uniformly among that file's line events: small modules (range analysis,
        memory allocators, the equivalence tracker) get the same share as the big rewriting modules.
        Returns a `target` for run()."""
        files = sorted(self.last_by_file)
        if not files:
            return None
        f = files[int(u * len(files)) % len(files)]
        u2 = (u * 7919.0) % 1.0
        return (f, 1 + int(u2 * self.last_by_file[f]) % max(1, self.last_by_file[f]))

    def run(self, fn, k=None, exc=None, target=None):
        """Run fn() while counting; raise `exc` at event k (1-based) if given, or at the j-th line event
        of one file if target=(file, j).  Returns (outcome, n_events) where outcome is ("ret", value)
        or ("exc", exception)."""
        self.install()
        self.count = 0
        self.by_file = {}
        self.target = target
        self.k = k
        self.exc = exc
        self.fired = False
        self.fired_at = None
        self.active = True
        self.mon.restart_events()
        self.mon.set_events(self.tool, self.mon.events.LINE)
        try:
            try:
                out = ("ret", fn())
            except BaseException as e:  # noqa: BLE001 - we model Ctrl-C too
                out = ("exc", e)
        finally:
            self.active = False
            self.mon.set_events(self.tool, 0)
        if k is None and target is None:
            self.last_by_file = dict(self.by_file)
        return out, self.count


def make_crash_exc(flavour: str, tag: str = ""):
    if flavour == "interrupt":
        return SimInterrupt(f"injected interrupt {tag}")
    return SimCrash(f"injected crash {tag}")


# --------------------------------------------------------------------------- #
# S7 GC


def gc_off():
    gc.disable()


def collect():
    gc.collect()
    gc.collect()


# --------------------------------------------------------------------------- #
# S5 symbol counter


def set_sym_offset(off: int):
    from exo.core.prelude import Sym

    Sym._unq_count = max(Sym._unq_count, 1) + int(off)


# --------------------------------------------------------------------------- #
# S3 id-hash salts

_salt_state = {"salt": None, "orig": {}, "n": 0, "base": 0, "reuse": False, "pool": []}


def _mix(salt: int, key: int) -> int:
    x = (key ^ salt) * 0x9E3779B97F4A7C15 & 0xFFFFFFFFFFFFFFFF
    x ^= x >> 29
    x = x * 0xBF58476D1CE4E5B9 & 0xFFFFFFFFFFFFFFFF
    x ^= x >> 32
    return x & 0x7FFFFFFFFFFFFFFF


def salt_mark_base():
    """Call after warm-up in the parent: serial numbers handed out to objects
    created during a run restart from here at every run."""
    _salt_state["base"] = _salt_state["n"]


def salt_begin_run(salt: int, reuse: bool = False):
    """(Re)seed the hash order for one run.  Makes the iteration order of every
    set/dict keyed by Sym, LoopIR.proc, Config, Extern objects and Memory
    classes a function of `salt` and of creation order - not of memory
    addresses, which depend on everything the process allocated before.

    reuse=True additionally simulates ADDRESS REUSE: exo hashes procedures by
    id(), and CPython hands the address of a collected object to the next
    allocation of the same size.  With reuse on, the serial number of a procedure
    that dies goes to a LIFO free list and the next new procedure takes it - a
    deterministic stand-in for the allocator, so that state keyed by a dead
    procedure's hash (memo tables, caches) meets an unrelated live procedure."""
    install_hash_salt(salt)
    _salt_state["n"] = _salt_state["base"]
    _salt_state["reuse"] = bool(reuse)
    _salt_state["pool"] = []


def install_hash_salt(salt: int):
    from abc import ABCMeta

    from exo.core.prelude import Sym
    from exo.core.LoopIR import LoopIR
    from exo.core.configs import Config
    from exo.core.extern import Extern
    from exo.core.memory import Memory

    st = _salt_state
    st["salt"] = salt
    if st["orig"]:
        return  # hash functions read st["salt"] dynamically
    st["orig"] = {
        "Sym": Sym.__hash__,
        "proc": LoopIR.proc.__hash__,
        "Config": Config.__hash__,
        "Extern": Extern.__hash__,
    }

    def _serial(obj):
        s = obj.__dict__.get("_sim_serial")
        if s is None:
            st["n"] += 1
            s = st["n"]
            object.__setattr__(obj, "_sim_serial", s)
        return s

    def sym_hash(self):
        return _mix(st["salt"], self._id)

    def obj_hash(self):
        return _mix(st["salt"] ^ 0x5151, _serial(self))

    def _proc_serial(obj):
        s = obj.__dict__.get("_sim_serial")
        if s is None:
            if st["reuse"] and st["pool"]:
                s = st["pool"].pop()  # the "address" of the most recently freed procedure
            else:
                st["n"] += 1
                s = st["n"]
            object.__setattr__(obj, "_sim_serial", s)
            if st["reuse"]:
                import weakref

                pool = st["pool"]
                weakref.finalize(obj, pool.append, s)
        return s

    def proc_hash(self):
        # id-hash semantics are kept (two structurally equal procs are different
        # keys); only the value is a serial number instead of an address
        return _mix(st["salt"] ^ 0xA7A7, _proc_serial(self))

    Sym.__hash__ = sym_hash
    Config.__hash__ = obj_hash
    Extern.__hash__ = obj_hash
    LoopIR.proc.__hash__ = proc_hash

    class SimMeta(ABCMeta):
        def __hash__(cls):
            s = cls.__dict__.get("_sim_serial")
            if s is None:
                st["n"] += 1
                s = st["n"]
                type.__setattr__(cls, "_sim_serial", s)
            return _mix(st["salt"] ^ 0x3C3C, s)

    def retag(c):
        for sub in c.__subclasses__():
            retag(sub)
        try:
            c.__class__ = SimMeta
        except TypeError:
            pass

    retag(Memory)
    st["SimMeta"] = SimMeta


# --------------------------------------------------------------------------- #
# S1/S2 solver verdicts


class SolverSeam:
    """Wraps the analysis solver (new_analysis_core.SMTSolver.verify/satisfy,
    backed by z3) and the front-end/unifier solver (pysmt).  The fault plan is a
    dict {query_index: kind}; query indices count *all* wrapped solver calls of
    the current `window` (one API call) in order, which is deterministic.

    kinds:  "F1"  run the real query, then answer "not proved" (verify only)
            "F2"  raise z3.Z3Exception("canceled") / pysmt unknown-result error
    """

    def __init__(self):
        self.installed = False
        self.plan = {}
        self.n = 0
        self.fired = []
        self.kinds_seen = []

    def begin(self, plan=None):
        self.plan = dict(plan or {})
        self.n = 0
        self.fired = []
        self.kinds_seen = []

    def _tick(self, site):
        self.n += 1
        self.kinds_seen.append(site)
        return self.plan.get(self.n)

    def install(self):
        if self.installed:
            return
        self.installed = True
        import z3
        from exo.rewrite import new_analysis_core as nac

        seam = self
        orig_verify = nac.SMTSolver.verify
        orig_satisfy = nac.SMTSolver.satisfy

        def verify(self_, e):
            f = seam._tick("verify")
            if f == "F2":
                seam.fired.append((seam.n, "F2", "verify"))
                raise z3.Z3Exception("canceled")
            r = orig_verify(self_, e)
            if f == "F1":
                seam.fired.append((seam.n, "F1", "verify", bool(r)))
                return False
            return r

        def satisfy(self_, e):
            f = seam._tick("satisfy")
            if f in ("F2", "F1"):
                seam.fired.append((seam.n, "F2", "satisfy"))
                raise z3.Z3Exception("canceled")
            return orig_satisfy(self_, e)

        nac.SMTSolver.verify = verify
        nac.SMTSolver.satisfy = satisfy

        # pysmt (front-end bounds check, unifier)
        try:
            from pysmt.exceptions import SolverReturnedUnknownResultError
            from pysmt.solvers.z3 import Z3Solver

            for nm in ("_solve",):
                orig = Z3Solver.__dict__.get(nm)
                if orig is None:
                    continue

                def mk(orig, nm):
                    def wrapped(self_, *a, **kw):
                        f = seam._tick("pysmt." + nm)
                        if f in ("F2", "F1"):
                            seam.fired.append((seam.n, "F2", "pysmt." + nm))
                            raise SolverReturnedUnknownResultError()
                        return orig(self_, *a, **kw)

                    return wrapped

                setattr(Z3Solver, nm, mk(orig, nm))
        except Exception:  # pragma: no cover
            pass

"""C09: parallel loops that compile are race-free.

Programs with `par` loops at every nesting position (and `parallelize_loop`
applied after short scheduling histories) are offered to the real back end;
acceptance is decided by real code (compile_procs_to_strings returns or raises).
Accepted procedures are executed by the reference interpreter with every
iteration of a par loop as a task and a seeded scheduler choosing the
interleaving at shared-access granularity.

Oracles: (a) per dynamic par-loop instance, iteration i's write/reduce set never
meets iteration j's read/write/reduce set; (b) the final buffers/config equal
the sequential execution's.
"""
from __future__ import annotations

from . import gen_prog
from . import inputs as INP
from .interp import InterpBudget, InterpUnsupported, InterpUnbound
from .kernel import EventLog, Probes, substream, stable_hash
from .progs import define

# --------------------------------------------------------------------------- #
# seeded task scheduler


class Scheduler:
    POLICIES = ["uniform", "priority", "reverse", "roundrobin", "lastfirst"]

    def __init__(self, seed, policy=None):
        self.r = substream(seed, "sched")
        self.policy = policy or self.r.choice(self.POLICIES)
        self.prio = {}
        self.rr = {}
        self.quantum = self.r.randint(1, 4)
        self.steps = 0
        self.change_at = {self.r.randint(1, 200) for _ in range(3)}

    def pick(self, inst, alive, frames):
        self.steps += 1
        p = self.policy
        if p == "uniform":
            return alive[self.r.randrange(len(alive))]
        if p == "reverse":
            return alive[-1]
        if p == "lastfirst":
            # run the last iteration to completion first, then the others in order
            return alive[-1] if len(alive) == len(frames) or alive[-1] == len(frames) - 1 else alive[0]
        if p == "priority":
            pr = self.prio.setdefault(inst, {})
            if self.steps in self.change_at:
                pr.clear()
            for k in alive:
                if k not in pr:
                    pr[k] = self.r.random()
            return max(alive, key=lambda k: pr[k])
        # round robin with quantum
        st = self.rr.setdefault(inst, [0, 0])
        if st[0] not in alive or st[1] >= self.quantum:
            nxt = [k for k in alive if k > st[0]]
            st[0] = nxt[0] if nxt else alive[0]
            st[1] = 0
        st[1] += 1
        return st[0]

    def done(self, inst, k):
        pass


# --------------------------------------------------------------------------- #
# program generation biased towards par loops

PAR_BODIES = [
    # (body lines using iterator i over [0,n), needs)  -- racy and race-free mixed
    ("y[i] = x[i] * 2.0", {"x", "y"}),
    ("y[i] += x[i]", {"x", "y"}),
    ("y[0] += x[i]", {"x", "y"}),
    ("y[0] = x[i]", {"x", "y"}),
    ("y[i] = y[i] + 1.0", {"y"}),
    ("y[i] = x[i] + x[0]", {"x", "y"}),
    ("y[i] = y[0] + x[i]", {"x", "y"}),
    ("y[i / 2] = x[i]", {"x", "y"}),
    ("y[i % 2] += x[i]", {"x", "y"}),
    ("y[n - 1 - i] = x[i]", {"x", "y"}),
    ("y[n - 1 - i] = y[i]", {"y"}),
    ("t: f32\nt = x[i]\ny[i] = t * t", {"x", "y"}),
    ("for j in seq(0, m):\n    C[i, j] = A[i, j] + B[j]", {"A", "B", "C"}),
    ("for j in seq(0, m):\n    C[i, j] += A[i, j]", {"A", "C"}),
    ("for j in seq(0, m):\n    B[j] += A[i, j]", {"A", "B"}),
    ("for j in seq(0, m):\n    y[i] += A[i, j]", {"A", "y"}),
    ("vcopy(m, C[i, 0:m], A[i, 0:m])", {"A", "C"}),
    ("vaxpy(m, s, C[i, 0:m], B[0:m])", {"C", "B", "s"}),
    ("vaxpy(m, s, B[0:m], A[i, 0:m])", {"A", "B", "s"}),
    ("CfgA.a = x[i]\ny[i] = CfgA.a", {"x", "y"}),
    ("y[i] = x[i] * CfgA.a", {"x", "y"}),
    ("if i > 0:\n    y[i] = x[i - 1]", {"x", "y"}),
    ("if i + 1 < n:\n    y[i] = y[i + 1]", {"y"}),
    ("if i + 2 < n:\n    y[i + 2] = y[i] + 1.0", {"y"}),
    ("if i + 1 < n:\n    y[i + 1] = x[i]\ny[i] = 0.0" , {"x", "y"}),
    ("w = A[i, 0:m]\nfor j in seq(0, m):\n    y[i] += w[j]", {"A", "y"}),
    ("for j in par(0, m):\n    C[i, j] = A[i, j]", {"A", "C"}),
    ("for j in par(0, m):\n    y[i] += A[i, j]", {"A", "y"}),
]

DECL = {
    "x": "x: f32[n]", "y": "y: f32[n]", "A": "A: f32[n, m]", "B": "B: f32[m]", "C": "C: f32[n, m]", "s": "s: f32",
}


def gen_par_program(rng):
    body, need = rng.choice(PAR_BODIES)
    need = set(need)
    lines = ["for i in par(0, n):"] + ["    " + l for l in body.split("\n")]
    pos = rng.random()
    if pos < 0.30:
        pass  # top level
    elif pos < 0.50:
        lines = ["for rep in seq(0, 2):"] + ["    " + l for l in lines]
    elif pos < 0.62:
        lines = ["if n > 1:"] + ["    " + l for l in lines]
    elif pos < 0.72:
        lines = ["if n > 1:", "    pass", "else:"] + ["    " + l for l in lines] + ["for i in seq(0, n):", "    pass"]
    elif pos < 0.82:
        # par loop inside a seq loop over another dimension
        lines = ["for r2 in seq(0, m):"] + ["    " + l for l in lines]
    elif pos < 0.90:
        # a second statement before/after
        need |= {"x", "y"}
        lines = ["for i in seq(0, n):", "    y[i] = x[i]"] + lines
    elif pos < 0.95:
        # an `if` without par loop precedes the par loop in the same block
        need |= {"y"}
        lines = ["if n > 3:", "    y[0] = 0.0"] + lines
        if rng.random() < 0.5:
            lines = ["for rep in seq(0, 2):"] + ["    " + l for l in lines]
    else:
        # the par loop lives in a sub-procedure; the caller is sequential
        names = [k for k in ["x", "y", "A", "B", "C", "s"] if k in need]
        sub_args = ["n: size", "m: size"] + [DECL[k] for k in names]
        sub = "@proc\ndef par_sub(" + ", ".join(sub_args) + "):\n" + "".join("    " + l + "\n" for l in lines)
        call = "par_sub(n, m, " + ", ".join(names) + ")"
        body = [call] if rng.random() < 0.5 else ["for rep in seq(0, 2):", "    " + call]
        return sub + "\n\n@proc\ndef p(" + ", ".join(sub_args) + "):\n" + "".join("    " + l + "\n" for l in body)
    args = ["n: size", "m: size"] + [DECL[k] for k in ["x", "y", "A", "B", "C", "s"] if k in need]
    src = "@proc\ndef p(" + ", ".join(args) + "):\n" + "".join("    " + l + "\n" for l in lines)
    return src


# --------------------------------------------------------------------------- #


def run_case(data: dict, log_keep=False) -> dict:
    """data: {"src":…, "ops":[session op records] , "seed":…, "n_inputs", "n_sched"}"""
    from exo.API import compile_procs_to_strings, Procedure
    from . import session as SS

    log = EventLog(keep=log_keep)
    probes = Probes()
    faults = {"interleavings": 0, "sched_steps": 0}
    out = {"violation": None}
    sdata = {"engine": "session", "src": data["src"], "ops": data.get("ops", []), "checks": {}, "props": []}
    S = SS.Session(sdata)
    try:
        S.setup()
    except Exception as e:
        probes.hit("program_rejected")
        return {"violation": None, "digest": log.digest(), "n_events": 0, "probes": dict(probes), "faults": faults, "accepted": False}
    for rec in sdata["ops"]:
        try:
            S.apply(rec)
        except Exception:
            probes.hit("op_error")
    # the newest descendant of p
    pid = "p"
    for k in S.procs:
        if k.startswith("r") and S.root_pid(k) == "p":
            pid = k
    p = S.procs[pid]
    ir = p._loopir_proc
    log.log("prog", h=stable_hash(str(p)))
    try:
        compile_procs_to_strings([p], "par_case.h")
        accepted = True
    except Exception as e:
        accepted = False
        log.log("rejected", e=type(e).__name__)
        probes.hit("compile_rejected")
    if not accepted:
        return {"violation": None, "digest": log.digest(), "n_events": log.n, "probes": dict(probes), "faults": faults, "accepted": False}
    probes.hit("compile_accepted")
    if "#pragma omp parallel for" not in p.c_code_str():
        probes.hit("no_pragma_emitted")
    rin = substream(data["seed"], "inputs")
    cfgs = INP.collect_configs(ir)
    for k in range(data.get("n_inputs", 3)):
        try:
            spec = INP.gen_spec(ir, rin, max_size=5, strided=False)
            cfg = INP.gen_config(cfgs, rin)
            seq = INP.run_proc(ir, spec, cfg, max_steps=15000)
        except (INP.NoInput, InterpBudget, InterpUnsupported, InterpUnbound):
            probes.hit("input_or_interp_skip")
            continue
        it = seq["it"]
        probes.hit("par_instances", it.par_instances)
        probes.hit("par_multi_iter_instances", it.par_multi_iter)
        log.log("seq", races=len(it.races), inst=it.par_instances)
        sizes = [d.get("v") for d in spec if d["k"] in ("int", "bool")]
        if it.races:
            r0 = it.races[0]
            out["violation"] = {
                "prop": "C09",
                "sig": "race-in-compiled-par-loop",
                "detail": f"par loop over {r0['loop']} compiles, but iterations {r0['iter_a']} and {r0['iter_b']} conflict on "
                f"{r0['loc']} ({r0['n_locs']} locations) for sizes {sizes}\n{p}",
                "key": {"sig": "race-in-compiled-par-loop", "op": "compile", "engine": "par-sim", "nesting": _nesting(ir)},
                "input": k,
            }
            # demonstrate: look for an interleaving whose result differs from sequential
            for j in range(data.get("n_sched", 8)):
                sch = Scheduler(data["seed"] * 131 + k * 17 + j)
                try:
                    par = INP.run_proc(ir, spec, cfg, max_steps=30000, par_mode="tasks", sched=sch)
                except (InterpBudget, InterpUnsupported, InterpUnbound):
                    continue
                faults["interleavings"] += 1
                faults["sched_steps"] += par["it"].sched_steps
                d = INP.compare_states(seq, par)
                if d is not None:
                    out["violation"]["witness_schedule"] = {"policy": sch.policy, "seed": data["seed"] * 131 + k * 17 + j, "difference": d}
                    probes.hit("diverging_interleaving_found")
                    break
            break
        # no conflict detected: every interleaving must give the sequential result
        for j in range(data.get("n_sched", 8)):
            sch = Scheduler(data["seed"] * 131 + k * 17 + j)
            try:
                par = INP.run_proc(ir, spec, cfg, max_steps=30000, par_mode="tasks", sched=sch)
            except (InterpBudget, InterpUnsupported, InterpUnbound):
                probes.hit("par_interp_skip")
                continue
            faults["interleavings"] += 1
            faults["sched_steps"] += par["it"].sched_steps
            log.log("par", policy=sch.policy, steps=par["it"].sched_steps)
            d = INP.compare_states(seq, par)
            if par["it"].races:
                probes.hit("race_only_under_interleaving")
            if d is not None:
                out["violation"] = {
                    "prop": "C09",
                    "sig": "interleaving-changes-result",
                    "detail": f"schedule {sch.policy} gives a different final state than sequential execution: {d} sizes {sizes}\n{p}",
                    "key": {"sig": "interleaving-changes-result", "op": "compile", "engine": "par-sim", "nesting": _nesting(ir)},
                }
                break
        if out["violation"]:
            break
    out.update({"digest": log.digest(), "n_events": log.n, "probes": dict(probes), "faults": faults, "accepted": True,
                "events": log.events if log_keep else None})
    return out


def _nesting(ir):
    """Where the first par loop sits: 'top' or the kinds of enclosing statements."""
    from exo.core.LoopIR import LoopIR

    def rec(stmts, ctx):
        for s in stmts:
            if isinstance(s, LoopIR.For):
                if isinstance(s.loop_mode, LoopIR.Par):
                    return ctx or "top"
                r = rec(s.body, (ctx + ">" if ctx else "") + "seq")
                if r:
                    return r
            elif isinstance(s, LoopIR.If):
                r = rec(s.body, (ctx + ">" if ctx else "") + "if") or rec(s.orelse, (ctx + ">" if ctx else "") + "else")
                if r:
                    return r
        return None

    return rec(ir.body, "") or "callee-or-none"


def generate_and_run(seed: int, cfg: dict) -> dict:
    from . import session as SS

    r = substream(seed, "par-prog")
    mode = r.random()
    ops = []
    if mode < 0.6:
        src = gen_par_program(r)
    else:
        # a generated sequential program; parallelize_loop at a seeded loop after a short history
        src, _ = gen_prog.gen_program(r, {"configs": r.random() < 0.3, "par": r.random() < 0.3, "calls": True})
    data = {"engine": "par-sim", "src": src, "ops": ops, "seed": seed, "n_inputs": cfg.get("n_inputs", 3), "n_sched": cfg.get("n_sched", 6)}
    if mode >= 0.6:
        # build the history online with the session proposers
        sdata = {"engine": "session", "src": src, "ops": [], "checks": {}, "props": []}
        S = SS.Session(sdata)
        try:
            S.setup()
        except Exception:
            return {"violation": None, "digest": "rejected", "n_events": 0, "probes": {"program_rejected": 1}, "faults": {}, "accepted": False}
        rops = substream(seed, "par-ops")
        pid = "p"
        names = ["fission", "reorder_loops", "divide_loop", "lift_scope", "fuse", "cut_loop", "reorder_stmts", "simplify", "inline"]
        k = 0
        for _ in range(rops.randint(0, 3)):
            nm = rops.choice(names)
            feat = SS.Feat(S.procs[pid]._loopir_proc)
            try:
                pr = SS.PROPOSERS[nm](rops, S, pid, feat)
            except Exception:
                pr = None
            if not pr:
                continue
            k += 1
            rec = {"op": nm, "on": pid, "out": f"r{k}", "args": pr[0], "kw": pr[1], "stale": False}
            ops.append(rec)
            S.apply(rec)
            if rec["out"] in S.procs:
                pid = rec["out"]
        for _ in range(rops.randint(1, 2)):
            feat = SS.Feat(S.procs[pid]._loopir_proc)
            pr = SS.PROPOSERS["parallelize_loop"](rops, S, pid, feat)
            if not pr:
                break
            k += 1
            rec = {"op": "parallelize_loop", "on": pid, "out": f"r{k}", "args": pr[0], "kw": pr[1], "stale": False}
            ops.append(rec)
            S.apply(rec)
            if rec["out"] in S.procs:
                pid = rec["out"]
    res = run_case(data)
    if res.get("violation") or seed % 97 == 0:
        res["data"] = data
    return res


def replay(data: dict):
    return run_case(data, log_keep=True)

"""Seeded input generation for the reference interpreter and comparison of
final states."""
from __future__ import annotations

from fractions import Fraction

from exo.core.LoopIR import LoopIR, T

from .interp import Interp, InterpBudget, InterpUnsupported, POISON, Store, View


class NoInput(Exception):
    pass


def _eval_static(e, env):
    """Evaluate a control expression over {Sym: int}; raises KeyError for
    anything else."""
    it = Interp()
    return it.eval(e, env, ())


def gen_spec(proc, rng, max_size=5, tries=60, strided=True, small_vals=True):
    """Returns a list parallel to proc.args of concrete argument descriptions
    satisfying proc.preds (rejection sampling)."""
    last_err = None
    for t in range(tries):
        env = {}
        spec = []
        ok = True
        cap = max_size if t < tries // 2 else max(2, max_size - 1 + t % 3)
        for a in proc.args:
            ty = a.type
            if isinstance(ty, T.Size):
                v = rng.randint(1, cap)
                env[a.name] = v
                spec.append({"k": "int", "v": v})
            elif isinstance(ty, (T.Index, T.Int)):
                v = rng.randint(-1, cap) if rng.random() < 0.3 else rng.randint(0, cap)
                env[a.name] = v
                spec.append({"k": "int", "v": v})
            elif isinstance(ty, T.Bool):
                v = rng.random() < 0.5
                env[a.name] = v
                spec.append({"k": "bool", "v": v})
            elif isinstance(ty, T.Stride):
                v = rng.randint(1, 4)
                env[a.name] = v
                spec.append({"k": "int", "v": v})
            elif ty.is_numeric():
                try:
                    shape = [int(_eval_static(h, env)) for h in ty.shape()]
                except Exception as e:  # shape mentions something odd
                    raise NoInput(f"cannot evaluate shape of {a.name}: {e}")
                if any(n <= 0 for n in shape):
                    ok = False
                    last_err = "non-positive extent"
                    break
                is_win = isinstance(ty, T.Tensor) and ty.is_window
                # dense strides
                strides = []
                acc = 1
                for n in reversed(shape):
                    strides.append(acc)
                    acc *= n
                strides.reverse()
                off = 0
                total = acc
                if is_win and strided and shape and rng.random() < 0.6:
                    # embed in a bigger store: pad inner extents, optional offset
                    pads = [rng.randint(0, 2) for _ in shape]
                    inner = rng.choice([1, 1, 1, 2]) if rng.random() < 0.5 else 1
                    strides = []
                    acc = inner
                    for n, p in zip(reversed(shape), reversed(pads)):
                        strides.append(acc)
                        acc *= n + p
                    strides.reverse()
                    off = rng.randint(0, 3)
                    total = acc + off + 1
                data = []
                for _ in range(total):
                    if small_vals:
                        data.append([rng.randint(-4, 4), rng.choice([1, 1, 2])])
                    else:
                        data.append([rng.randint(-50, 50), rng.randint(1, 7)])
                spec.append({"k": "buf", "shape": shape, "strides": strides, "off": off, "total": total, "data": data})
                env[a.name] = View(Store(0, str(a.name), 0), off, strides, shape)
            else:
                raise NoInput(f"unsupported argument type {ty}")
        if not ok:
            continue
        # assertions
        good = True
        for p in proc.preds:
            try:
                if _eval_static(p, env) is not True:
                    good = False
                    last_err = f"pred {p}"
                    break
            except Exception as e:
                raise NoInput(f"cannot evaluate assertion {p}: {e}")
        if good:
            return spec
    raise NoInput(f"no input satisfying assertions after {tries} tries ({last_err})")


def gen_config(configs, rng):
    """configs: iterable of exo Config objects -> {(cfg, field): value}."""
    out = {}
    for c in configs:
        for fname, _ in c.fields():
            ty = c.lookup_type(fname)
            if isinstance(ty, T.Bool):
                out[(c, fname)] = rng.random() < 0.5
            elif ty.is_real_scalar():
                out[(c, fname)] = Fraction(rng.randint(-4, 4), rng.choice([1, 2]))
            elif isinstance(ty, T.Size):
                out[(c, fname)] = rng.randint(1, 4)
            else:
                out[(c, fname)] = rng.randint(0, 4)
    return out


def instantiate(proc, spec, it: Interp):
    env = {}
    if len(spec) != len(proc.args):
        raise NoInput("signature length differs")
    for a, d in zip(proc.args, spec):
        if d["k"] in ("int", "bool"):
            if a.type.is_numeric():
                raise NoInput("signature kind differs")
            env[a.name] = d["v"]
        else:
            if not a.type.is_numeric():
                raise NoInput("signature kind differs")
            st = it.new_store(d["total"], str(a.name), None, (), True)
            st.data = [Fraction(n, m) for n, m in d["data"]]
            env[a.name] = View(st, d["off"], d["strides"], d["shape"])
    return env


def collect_configs(proc, acc=None, seen=None):
    """All Config objects mentioned by proc or its callees."""
    acc = acc if acc is not None else []
    seen = seen if seen is not None else set()
    if id(proc) in seen:
        return acc
    seen.add(id(proc))

    def add(c):
        if all(c is not x for x in acc):
            acc.append(c)

    def do_e(e):
        if isinstance(e, LoopIR.ReadConfig):
            add(e.config)
        for nm in ("idx", "args"):
            for x in getattr(e, nm, None) or []:
                if isinstance(x, LoopIR.expr):
                    do_e(x)
                elif isinstance(x, LoopIR.Interval):
                    do_e(x.lo)
                    do_e(x.hi)
                elif isinstance(x, LoopIR.Point):
                    do_e(x.pt)
        for nm in ("lhs", "rhs", "arg"):
            x = getattr(e, nm, None)
            if isinstance(x, LoopIR.expr):
                do_e(x)

    def do_s(s):
        if isinstance(s, LoopIR.WriteConfig):
            add(s.config)
            do_e(s.rhs)
        elif isinstance(s, (LoopIR.Assign, LoopIR.Reduce)):
            for i in s.idx:
                do_e(i)
            do_e(s.rhs)
        elif isinstance(s, LoopIR.If):
            do_e(s.cond)
            for x in s.body + s.orelse:
                do_s(x)
        elif isinstance(s, LoopIR.For):
            do_e(s.lo)
            do_e(s.hi)
            for x in s.body:
                do_s(x)
        elif isinstance(s, LoopIR.Call):
            for a in s.args:
                do_e(a)
            collect_configs(s.f, acc, seen)
        elif isinstance(s, LoopIR.WindowStmt):
            do_e(s.rhs)

    for p in proc.preds:
        do_e(p)
    for s in proc.body:
        do_s(s)
    return acc


def run_proc(proc, spec, config, max_steps=200000, par_mode="seq", sched=None):
    """Run `proc` (LoopIR.proc) on the input spec.  Returns dict with
    outputs (list per arg), final config, monitor, interpreter."""
    it = Interp(max_steps=max_steps, par_mode=par_mode, sched=sched)
    env = instantiate(proc, spec, it)
    it.run(proc, env, dict(config))
    outs = []
    for a, d in zip(proc.args, spec):
        if d["k"] == "buf":
            outs.append(list(env[a.name].store.data))
        else:
            outs.append(None)
    return {"outs": outs, "config": dict(it.config), "mon": it.mon, "it": it}


def compare_states(ref, got, ignore_cfg=frozenset()):
    """Compare final argument buffers (whole stores, so writes outside a window
    are seen too) and config.  Elements that are poison in the reference are
    not compared.  Returns None or a dict describing the first difference."""
    for ai, (ro, go) in enumerate(zip(ref["outs"], got["outs"])):
        if ro is None:
            continue
        if len(ro) != len(go):
            return {"kind": "size", "arg": ai}
        for j, (r, g) in enumerate(zip(ro, go)):
            if r is POISON:
                continue
            if g is POISON:
                return {"kind": "poison-out", "arg": ai, "flat": j, "ref": str(r)}
            if r != g:
                return {"kind": "value", "arg": ai, "flat": j, "ref": str(r), "got": str(g)}
    diffs = []
    for k, rv in ref["config"].items():
        gv = got["config"].get(k)
        if rv is POISON:
            continue
        if gv != rv:
            diffs.append(k)
    return {"kind": "config", "fields": diffs} if [k for k in diffs if k not in ignore_cfg] else None

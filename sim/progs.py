"""Defining Exo procedures/configs/memories from source text (the generator's
output and the replay files are plain text)."""
from __future__ import annotations

import linecache
import sys
import types

_counter = [0]

PRELUDE = (
    "from __future__ import annotations\n"
    "from exo import proc, instr, config, DRAM, Memory\n"
    "from exo.libs.memories import DRAM_STACK, DRAM_STATIC, MDRAM, MemGenError\n"
    "from exo.libs.externs import select, relu, sin, sqrt, fmaxf\n"
    "from exo.stdlib.scheduling import *\n"
)


def define(src: str, ns: dict | None = None, tag: str = "gen"):
    """exec `src` (which contains @proc / @config / class definitions) as a
    synthetic module so that inspect.getsource works; returns its namespace
    (a dict).  `ns` (optional) is copied in first."""
    _counter[0] += 1
    name = f"_exo_sim_{tag}_{_counter[0]}"
    fname = f"<{name}>"
    mod = types.ModuleType(name)
    mod.__file__ = fname
    sys.modules[name] = mod
    if ns:
        for k, v in ns.items():
            if not k.startswith("__"):
                mod.__dict__[k] = v
    full = PRELUDE + src
    lines = full.splitlines(True)
    linecache.cache[fname] = (len(full), None, lines, fname)
    code = compile(full, fname, "exec")
    exec(code, mod.__dict__)
    return mod.__dict__

"""The Exo session simulator: generated programs, seeded operation proposers for
every scheduling primitive, fault injection around each call, invariant
dispatch (C01/C04/C05/C06/C07/C10) and exact replay from a recorded op list.

A session file (also the replay format) is

  {"engine": "session", "src": <program text>, "gen_cfg": {...},
   "ops": [ {"op": name, "on": proc-id, "out": proc-id, "args": [...],
             "kw": {...}, "fault": {...}|None, "stale": bool} ... ],
   "checks": {"pure":…, "fwd":…, "sem":…, "valid":…}, "inputs_seed": int}

Procedures are referred to by stable ids assigned when the op list is
generated ("p" = the generated program, library names for library procs, then
"r<k>" for results), so removing ops while shrinking never renumbers anything;
an op whose operands do not exist (or whose cursor path no longer resolves) is
skipped.
"""
from __future__ import annotations

import random

from exo.core.LoopIR import LoopIR, T
from exo.core import internal_cursors as IC
from exo import API_cursors as AC

from . import gen_prog
from .kernel import EventLog, Probes, substream, SimCrash, SimInterrupt, stable_hash, classify_text_diff
from .progs import define
from .seams import CrashSeam, SolverSeam, make_crash_exc
from .oracles.fingerprint import fingerprint, stmt_paths

# --------------------------------------------------------------------------- #
# IR feature extraction


def expr_nodes(e, path, out, depth=0):
    out.append((path, e))
    if depth > 6:
        return
    if isinstance(e, LoopIR.BinOp):
        expr_nodes(e.lhs, path + [("lhs", None)], out, depth + 1)
        expr_nodes(e.rhs, path + [("rhs", None)], out, depth + 1)
    elif isinstance(e, LoopIR.USub):
        expr_nodes(e.arg, path + [("arg", None)], out, depth + 1)
    elif isinstance(e, LoopIR.Extern):
        for i, a in enumerate(e.args):
            expr_nodes(a, path + [("args", i)], out, depth + 1)
    elif isinstance(e, LoopIR.Read):
        for i, a in enumerate(e.idx):
            expr_nodes(a, path + [("idx", i)], out, depth + 1)


class Feat:
    """Cursor-path inventory of one procedure."""

    def __init__(self, ir):
        self.ir = ir
        self.stmts = stmt_paths(ir)
        self.by = {}
        for p, s in self.stmts:
            self.by.setdefault(type(s).__name__, []).append((p, s))
        self.exprs = []  # (path, node, stmt)
        for p, s in self.stmts:
            if isinstance(s, (LoopIR.Assign, LoopIR.Reduce)):
                tmp = []
                expr_nodes(s.rhs, p + [("rhs", None)], tmp)
                for i, ix in enumerate(s.idx):
                    expr_nodes(ix, p + [("idx", i)], tmp)
                self.exprs += [(q, e, s) for q, e in tmp]
            elif isinstance(s, LoopIR.If):
                tmp = []
                expr_nodes(s.cond, p + [("cond", None)], tmp)
                self.exprs += [(q, e, s) for q, e in tmp]
            elif isinstance(s, LoopIR.For):
                tmp = []
                expr_nodes(s.hi, p + [("hi", None)], tmp)
                self.exprs += [(q, e, s) for q, e in tmp]
            elif isinstance(s, LoopIR.Call):
                tmp = []
                for i, a in enumerate(s.args):
                    if not isinstance(a, LoopIR.WindowExpr):
                        expr_nodes(a, p + [("args", i)], tmp)
                self.exprs += [(q, e, s) for q, e in tmp]
            elif isinstance(s, LoopIR.WriteConfig):
                tmp = []
                expr_nodes(s.rhs, p + [("rhs", None)], tmp)
                self.exprs += [(q, e, s) for q, e in tmp]

    def get(self, *kinds):
        out = []
        for k in kinds:
            out += self.by.get(k, [])
        return out

    def block_of(self, path):
        """(anchor_path, attr, index, length) of the block containing stmt at path."""
        anchor = path[:-1]
        attr, idx = path[-1]
        n = self.ir
        for a, i in anchor:
            n = getattr(n, a)
            if i is not None:
                n = n[i]
        return anchor, attr, idx, len(getattr(n, attr))

    def enclosing_loops(self, path):
        out = []
        n = self.ir
        for k, (a, i) in enumerate(path):
            n = getattr(n, a)
            if i is not None:
                n = n[i]
            if isinstance(n, LoopIR.For) and k < len(path) - 1:
                out.append((path[: k + 1], n))
        return out


# --------------------------------------------------------------------------- #
# argument specs  <->  real arguments


def A_node(pid, path):
    return {"t": "node", "p": pid, "path": [list(x) for x in path]}


def A_gap(pid, path, after):
    return {"t": "gap", "p": pid, "path": [list(x) for x in path], "after": bool(after)}


def A_block(pid, anchor, attr, lo, hi):
    return {"t": "block", "p": pid, "path": [list(x) for x in anchor], "attr": attr, "lo": lo, "hi": hi}


def A_val(v):
    return {"t": "val", "v": v}


def A_proc(pid):
    return {"t": "proc", "p": pid}


def A_mem(name):
    return {"t": "mem", "v": name}


def A_cfg(name):
    return {"t": "cfg", "v": name}


def A_arg(pid, idx):
    return {"t": "argc", "p": pid, "i": idx}


class SkipOp(Exception):
    pass


def _solver_unknown(out):
    return out[0] == "exc" and (
        "unknown result from z3" in str(out[1]) or type(out[1]).__name__ == "SolverReturnedUnknownResultError"
    )


_SIMSTATIC = []


def get_simstatic():
    """A user-defined register-file memory following the library pattern
    (exo.libs.memories.AMX_TILE): defined once per process, like a library
    object, so its class-level allocator state lives across compilations."""
    if not _SIMSTATIC:
        ns = define(
            "from exo.core.memory import StaticMemory\n"
            "class SimStatic(StaticMemory):\n"
            "    N = 2\n"
            "    StaticMemory.init_state(N)\n"
            "    reg = {}\n"
            "    @classmethod\n"
            "    def global_(cls):\n"
            "        return 'static float simreg[2][8];'\n"
            "    @classmethod\n"
            "    def can_read(cls):\n"
            "        return True\n"
            "    @classmethod\n"
            "    def write(cls, s, lhs, rhs):\n"
            "        return f'{lhs} = {rhs};'\n"
            "    @classmethod\n"
            "    def reduce(cls, s, lhs, rhs):\n"
            "        return f'{lhs} += {rhs};'\n"
            "    @classmethod\n"
            "    def alloc(cls, new_name, prim_type, shape, srcinfo):\n"
            "        i = cls.find_free_chunk()\n"
            "        cls.mark(i)\n"
            "        cls.reg[new_name] = i\n"
            "        return f'#define {new_name} simreg[{i}]'\n"
            "    @classmethod\n"
            "    def free(cls, new_name, prim_type, shape, srcinfo):\n"
            "        i = cls.reg.pop(new_name)\n"
            "        cls.unmark(i)\n"
            "        return f'#undef {new_name}'\n",
            tag="simstatic",
        )
        _SIMSTATIC.append(ns["SimStatic"])
    return _SIMSTATIC[0]


def json_path(p):
    return repr(p)


# --------------------------------------------------------------------------- #
# proposers: (rng, S, pid, feat) -> (args, kwargs) or None

NEW_ITERS = [["io", "ii"], ["jo", "ji"], ["ko", "ki"]]


def _pick(r, xs):
    return xs[r.randrange(len(xs))] if xs else None


def _loop(r, f, pid):
    x = _pick(r, f.get("For"))
    return (A_node(pid, x[0]), x) if x else (None, None)


def _estr(e):
    return str(e)


def prop_simplify(r, S, pid, f):
    return [], {}


def prop_rename(r, S, pid, f):
    return [A_val(r.choice(["foo", "bar", "p2", "kernel"]))], {}


def prop_make_instr(r, S, pid, f):
    return [A_val("INSTR({n});")], {}


def prop_insert_pass(r, S, pid, f):
    x = _pick(r, f.stmts)
    return ([A_gap(pid, x[0], r.random() < 0.5)], {}) if x else None


def prop_delete_pass(r, S, pid, f):
    return [], {}


def prop_reorder_stmts(r, S, pid, f):
    cands = []
    for p, s in f.stmts:
        anchor, attr, idx, n = f.block_of(p)
        if idx + 1 < n:
            cands.append((anchor, attr, idx))
    c = _pick(r, cands)
    return ([A_block(pid, c[0], c[1], c[2], c[2] + 2)], {}) if c else None


def prop_parallelize_loop(r, S, pid, f):
    a, _ = _loop(r, f, pid)
    return ([a], {}) if a else None


def _binops(f, ops=None):
    return [(p, e, s) for p, e, s in f.exprs if isinstance(e, LoopIR.BinOp) and (ops is None or e.op in ops)]


def prop_commute_expr(r, S, pid, f):
    x = _pick(r, _binops(f, None if r.random() < 0.2 else ("+", "*")))
    return ([[A_node(pid, x[0])]], {}) if x else None


def prop_left_reassociate_expr(r, S, pid, f):
    cands = [(p, e, s) for p, e, s in _binops(f, ("+", "*")) if isinstance(e.rhs, LoopIR.BinOp)]
    x = _pick(r, cands) or _pick(r, _binops(f))
    return ([A_node(pid, x[0])], {}) if x else None


def prop_rewrite_expr(r, S, pid, f):
    cands = [(p, e, s) for p, e, s in f.exprs if e.type.is_indexable()]
    x = _pick(r, cands)
    if not x:
        return None
    es = _estr(x[1])
    variants = [f"{es} + 0", f"0 + {es}", f"({es}) * 1", f"2 * ({es}) - ({es})", f"({es} * 2) / 2", f"{es} + 1", f"({es}) / 1", "0"]
    return [A_node(pid, x[0]), A_val(r.choice(variants))], {}


def prop_bind_expr(r, S, pid, f):
    cands = [(p, e, s) for p, e, s in f.exprs if e.type.is_real_scalar() and isinstance(s, (LoopIR.Assign, LoopIR.Reduce))]
    x = _pick(r, cands)
    if not x:
        return None
    sel = [A_node(pid, x[0])]
    if r.random() < 0.3:
        # CSE: every structurally equal expression of the same statement
        sel = [A_node(pid, p) for p, e, s in cands if s is x[2] and str(e) == str(x[1])]
    return [sel, A_val(r.choice(["tmpb", "bx"]))], {}


def _some_block(r, f, pid, max_len=3):
    x = _pick(r, f.stmts)
    if not x:
        return None
    anchor, attr, idx, n = f.block_of(x[0])
    ln = r.randint(1, min(max_len, n - idx))
    return A_block(pid, anchor, attr, idx, idx + ln)


def prop_extract_subproc(r, S, pid, f):
    b = _some_block(r, f, pid)
    return ([b, A_val(r.choice(["sub_a", "sub_b"]))], {"include_asserts": r.random() < 0.7}) if b else None


def prop_inline(r, S, pid, f):
    x = _pick(r, f.get("Call"))
    return ([A_node(pid, x[0])], {}) if x else None


def prop_replace(r, S, pid, f):
    cands = f.get("For")
    x = _pick(r, cands)
    if not x:
        b = _some_block(r, f, pid)
        if not b:
            return None
    else:
        anchor, attr, idx, n = f.block_of(x[0])
        b = A_block(pid, anchor, attr, idx, idx + 1)
    pool = S.callee_pool()
    if x and r.random() < 0.75:
        hi = x[1].hi
        four = isinstance(hi, LoopIR.Const) and hi.val == 4
        pref = ["ld4", "add4", "fma4", "zero4", "ldn"] if four else ["vcopy", "vaxpy", "vscale_cfg"]
        if four and any(isinstance(st, LoopIR.If) for st in x[1].body):
            pref = ["ldn", "ldn", "ld4"]
        pool = [q for q in pool if q in pref or q.startswith("s")] or pool
    callee = r.choice(pool)
    return [b, A_proc(callee)], {"quiet": True}


def prop_call_eqv(r, S, pid, f):
    x = _pick(r, f.get("Call"))
    if not x:
        return None
    callee = x[1].f
    # candidates: anything in the session derived from the same library proc, or a random proc
    cands = S.variants_of(callee)
    if not cands or r.random() < 0.15:
        cands = S.callee_pool()
    return [A_node(pid, x[0]), A_proc(r.choice(cands))], {}


def _allocs_args(r, f, pid, allow_args=True):
    c = [("node", p, s) for p, s in f.get("Alloc")]
    if allow_args:
        c += [("arg", i, a) for i, a in enumerate(f.ir.args) if a.type.is_numeric()]
    return c


def prop_set_precision(r, S, pid, f):
    x = _pick(r, _allocs_args(r, f, pid))
    if not x:
        return None
    a = A_node(pid, x[1]) if x[0] == "node" else A_arg(pid, x[1])
    return [a, A_val(r.choice(["f32", "f64", "i8", "f16", "i32"]))], {}


def prop_set_window(r, S, pid, f):
    c = [(i, a) for i, a in enumerate(f.ir.args) if a.type.is_numeric() and a.type.shape()]
    x = _pick(r, c)
    return ([A_arg(pid, x[0]), A_val(r.random() < 0.7)], {}) if x else None


def prop_set_memory(r, S, pid, f):
    x = _pick(r, _allocs_args(r, f, pid))
    if not x:
        return None
    a = A_node(pid, x[1]) if x[0] == "node" else A_arg(pid, x[1])
    return [a, A_mem(r.choice(["DRAM", "DRAM_STACK", "DRAM_STATIC", "MDRAM", "SimStatic"]))], {}


def prop_bind_config(r, S, pid, f):
    cands = [
        (p, e, s)
        for p, e, s in f.exprs
        if isinstance(e, LoopIR.Read) and ((e.type.is_real_scalar() and not e.idx) or e.type == T.bool)
    ]
    x = _pick(r, cands)
    if not x:
        return None
    if x[1].type == T.bool:
        return [A_node(pid, x[0]), A_cfg("CfgA"), A_val("flag")], {}
    c, fl = r.choice([("CfgA", "a"), ("CfgA", "b"), ("CfgB", "a"), ("CfgB", "s")])
    return [A_node(pid, x[0]), A_cfg(c), A_val(fl)], {}


def prop_delete_config(r, S, pid, f):
    x = _pick(r, f.get("WriteConfig"))
    if not x and r.random() < 0.9:
        return None
    x = x or _pick(r, f.stmts)
    return ([A_node(pid, x[0])], {}) if x else None


def prop_write_config(r, S, pid, f):
    x = _pick(r, f.stmts)
    if not x:
        return None
    c, fl, rhs = r.choice(
        [("CfgA", "a", "s"), ("CfgA", "b", "s"), ("CfgB", "a", "s"), ("CfgB", "s", "s"), ("CfgA", "a", "1.0"), ("CfgB", "a", "0.5"),
         ("CfgA", "k", "1"), ("CfgA", "flag", "flag")]
    )
    return [A_gap(pid, x[0], r.random() < 0.5), A_cfg(c), A_val(fl), A_val(rhs)], {}


def _alloc(r, f, pid):
    x = _pick(r, f.get("Alloc"))
    return x


def _shape_strs(node):
    return [str(h) for h in node.type.shape()]


def prop_resize_dim(r, S, pid, f):
    x = _pick(r, [a for a in f.get("Alloc") if a[1].type.shape()])
    if not x:
        return None
    shp = _shape_strs(x[1])
    d = r.randrange(len(shp))
    size = r.choice([shp[d], f"{shp[d]} + 1", f"{shp[d]} - 1", "2", "4", f"{shp[d]} / 2"])
    off = r.choice(["0", "0", "1", "-1" if False else "0"])
    return [A_node(pid, x[0]), A_val(d), A_val(size), A_val(off)], {"fold": r.random() < 0.3}


def prop_expand_dim(r, S, pid, f):
    x = _alloc(r, f, pid)
    if not x:
        return None
    loops = f.enclosing_loops(x[0])
    # loops that enclose uses, not necessarily the alloc: offer any iterator/extent pair
    cands = [(str(l.hi), str(l.iter)) for _, l in loops] + [(str(s.hi), str(s.iter)) for _, s in f.get("For")]
    cands += [("4", "0"), ("n", "0")]
    hi, it = r.choice(cands)
    if r.random() < 0.2:
        it = it + " + 1"
    if r.random() < 0.15:
        hi = hi + " - 1"
    return [A_node(pid, x[0]), A_val(hi), A_val(it)], {}


def prop_rearrange_dim(r, S, pid, f):
    c = [a for a in f.get("Alloc") if len(a[1].type.shape()) >= 2]
    x = _pick(r, c)
    if not x:
        return None
    n = len(x[1].type.shape())
    perm = list(range(n))
    r.shuffle(perm)
    return [A_node(pid, x[0]), A_val(perm)], {}


def prop_divide_dim(r, S, pid, f):
    x = _pick(r, [a for a in f.get("Alloc") if a[1].type.shape()])
    if not x:
        return None
    return [A_node(pid, x[0]), A_val(r.randrange(len(x[1].type.shape()))), A_val(r.choice([2, 4, 3]))], {}


def prop_mult_dim(r, S, pid, f):
    c = [a for a in f.get("Alloc") if len(a[1].type.shape()) >= 2]
    x = _pick(r, c)
    if not x:
        return None
    n = len(x[1].type.shape())
    hi = r.randrange(n)
    lo = r.choice([i for i in range(n) if i != hi])
    return [A_node(pid, x[0]), A_val(hi), A_val(lo)], {}


def prop_unroll_buffer(r, S, pid, f):
    x = _pick(r, [a for a in f.get("Alloc") if a[1].type.shape()])
    if not x:
        return None
    return [A_node(pid, x[0]), A_val(r.randrange(len(x[1].type.shape())))], {}


def prop_lift_alloc(r, S, pid, f):
    x = _alloc(r, f, pid)
    return ([A_node(pid, x[0])], {"n_lifts": r.choice([1, 1, 2])}) if x else None


def prop_sink_alloc(r, S, pid, f):
    x = _alloc(r, f, pid)
    return ([A_node(pid, x[0])], {}) if x else None


def prop_autolift_alloc(r, S, pid, f):
    x = _alloc(r, f, pid)
    if not x:
        return None
    return [A_node(pid, x[0])], {"n_lifts": r.choice([1, 2]), "mode": r.choice(["row", "col"]), "keep_dims": r.random() < 0.5}


def prop_delete_buffer(r, S, pid, f):
    x = _alloc(r, f, pid)
    return ([A_node(pid, x[0])], {}) if x else None


def prop_reuse_buffer(r, S, pid, f):
    a = f.get("Alloc")
    if len(a) < 2:
        return None
    x, y = r.sample(a, 2)
    return [A_node(pid, x[0]), A_node(pid, y[0])], {}


def prop_inline_window(r, S, pid, f):
    x = _pick(r, f.get("WindowStmt"))
    return ([A_node(pid, x[0])], {}) if x else None


def _reads_of(e, out=None):
    out = out if out is not None else []
    if isinstance(e, LoopIR.Read):
        out.append((None, e.name))
        for i in e.idx:
            _reads_of(i, out)
    elif isinstance(e, LoopIR.BinOp):
        _reads_of(e.lhs, out)
        _reads_of(e.rhs, out)
    elif isinstance(e, LoopIR.USub):
        _reads_of(e.arg, out)
    elif isinstance(e, LoopIR.Extern):
        for a in e.args:
            _reads_of(a, out)
    elif isinstance(e, LoopIR.WindowExpr):
        out.append((None, e.name))
        for w in e.idx:
            if isinstance(w, LoopIR.Interval):
                _reads_of(w.lo, out)
                _reads_of(w.hi, out)
            else:
                _reads_of(w.pt, out)
    return out


def _walk_stmts(st, path=()):
    yield path, st
    if isinstance(st, LoopIR.If):
        for i, x in enumerate(st.body):
            yield from _walk_stmts(x, path + (("body", i),))
        for i, x in enumerate(st.orelse):
            yield from _walk_stmts(x, path + (("orelse", i),))
    elif isinstance(st, LoopIR.For):
        for i, x in enumerate(st.body):
            yield from _walk_stmts(x, path + (("body", i),))


def _stmt_reads(st):
    """(path, name) of every variable read anywhere in the statement (indices, right-hand
    sides, conditions, bounds, call arguments), recursively."""
    out = []

    def ex(e):
        if e is not None:
            _reads_of(e, out)

    def rec(s_):
        if isinstance(s_, (LoopIR.Assign, LoopIR.Reduce)):
            for e in s_.idx:
                ex(e)
            ex(s_.rhs)
        elif isinstance(s_, LoopIR.WriteConfig):
            ex(s_.rhs)
        elif isinstance(s_, LoopIR.If):
            ex(s_.cond)
            for x in s_.body:
                rec(x)
            for x in s_.orelse:
                rec(x)
        elif isinstance(s_, LoopIR.For):
            ex(s_.lo)
            ex(s_.hi)
            for x in s_.body:
                rec(x)
        elif isinstance(s_, LoopIR.Call):
            for e in s_.args:
                ex(e)
        elif isinstance(s_, LoopIR.WindowStmt):
            ex(s_.rhs)
        elif isinstance(s_, LoopIR.Alloc):
            for h in s_.type.shape() if s_.type.is_tensor_or_window() else []:
                ex(h)

    rec(st)
    return out


def _buffers_in(stmts):
    """[(name, [idx expr strings])] of buffer accesses in a list of stmts."""
    out = []

    def do_e(e):
        if isinstance(e, LoopIR.Read):
            if e.idx:
                out.append((str(e.name), [str(i) for i in e.idx], e.name))
            for i in e.idx:
                do_e(i)
        elif isinstance(e, LoopIR.BinOp):
            do_e(e.lhs)
            do_e(e.rhs)
        elif isinstance(e, LoopIR.USub):
            do_e(e.arg)
        elif isinstance(e, LoopIR.Extern):
            for a in e.args:
                do_e(a)

    def do_s(s):
        if isinstance(s, (LoopIR.Assign, LoopIR.Reduce)):
            out.append((str(s.name), [str(i) for i in s.idx], s.name))
            do_e(s.rhs)
        elif isinstance(s, LoopIR.If):
            for x in s.body + s.orelse:
                do_s(x)
        elif isinstance(s, LoopIR.For):
            for x in s.body:
                do_s(x)

    for s in stmts:
        do_s(s)
    return out


def prop_stage_mem(r, S, pid, f):
    x = _pick(r, f.stmts)
    if not x:
        return None
    anchor, attr, idx, n = f.block_of(x[0])
    ln = r.randint(1, min(2, n - idx))
    node = f.ir
    for a, i in anchor:
        node = getattr(node, a)
        if i is not None:
            node = node[i]
    stmts = getattr(node, attr)[idx : idx + ln]
    acc = _buffers_in(stmts)
    if not acc:
        return None
    name, idxs, sym = r.choice(acc)
    shape = S.shape_of(f.ir, sym)
    if shape is None:
        return None
    inner_iters = set()

    def iters(ss):
        for s in ss:
            if isinstance(s, LoopIR.For):
                inner_iters.add(str(s.iter))
                iters(s.body)
            elif isinstance(s, LoopIR.If):
                iters(s.body)
                iters(s.orelse)

    iters(stmts)
    parts = []
    for d, (ix, ext) in enumerate(zip(idxs, shape)):
        uses_inner = any(it in ix.replace("(", " ").replace(")", " ").split() for it in inner_iters)
        k = r.random()
        if not uses_inner and k < 0.45:
            parts.append(ix)  # point
        elif not uses_inner and k < 0.6:
            parts.append(f"{ix}:{ix} + 1")
        elif k < 0.9:
            parts.append(f"0:{ext}")
        else:
            parts.append(f"0:{ext} - 1" if r.random() < 0.5 else f"1:{ext}")
    w = f"{name}[{', '.join(parts)}]" if parts else name
    return [A_block(pid, anchor, attr, idx, idx + ln), A_val(w), A_val(r.choice(["stg", "xs"]))], {"accum": r.random() < 0.25}


def prop_divide_with_recompute(r, S, pid, f):
    a, x = _loop(r, f, pid)
    if not a:
        return None
    hi = str(x[1].hi)
    c = r.choice([2, 4])
    return [a, A_val(r.choice([f"{hi} / {c}", f"({hi}) / {c}", "n / 2", "2"])), A_val(c), A_val(r.choice(NEW_ITERS))], {}


def prop_divide_loop(r, S, pid, f):
    a, x = _loop(r, f, pid)
    if not a:
        return None
    kw = {"tail": r.choice(["guard", "cut", "cut_and_guard"])}
    if r.random() < 0.3:
        kw["perfect"] = True
    return [a, A_val(r.choice([2, 4, 3, 1])), A_val(r.choice(NEW_ITERS))], kw


def _nested(f):
    return [(p, s) for p, s in f.get("For") if len(s.body) == 1 and isinstance(s.body[0], LoopIR.For)]


def prop_mult_loops(r, S, pid, f):
    x = _pick(r, _nested(f)) or _pick(r, f.get("For"))
    return ([A_node(pid, x[0]), A_val("ij")], {}) if x else None


def prop_reorder_loops(r, S, pid, f):
    x = _pick(r, _nested(f)) or _pick(r, f.get("For"))
    return ([A_node(pid, x[0])], {}) if x else None


def prop_join_loops(r, S, pid, f):
    cands = []
    for p, s in f.get("For"):
        anchor, attr, idx, n = f.block_of(p)
        if idx + 1 < n:
            cands.append((p, anchor + [(attr, idx + 1)]))
    c = _pick(r, cands)
    return ([A_node(pid, c[0]), A_node(pid, c[1])], {}) if c else None


def prop_cut_loop(r, S, pid, f):
    a, x = _loop(r, f, pid)
    if not a:
        return None
    lo, hi = str(x[1].lo), str(x[1].hi)
    return [a, A_val(r.choice(["1", "2", f"{lo} + 1", f"{hi} - 1", f"({hi}) / 2", lo, hi, "n / 2", "3"]))], {}


def prop_shift_loop(r, S, pid, f):
    a, x = _loop(r, f, pid)
    if not a:
        return None
    return [a, A_val(r.choice(["0", "1", "2", "n", "3"]))], {}


def prop_merge_writes(r, S, pid, f):
    cands = []
    for p, s in f.get("Assign", "Reduce"):
        anchor, attr, idx, n = f.block_of(p)
        if idx + 1 < n:
            cands.append((anchor, attr, idx))
    c = _pick(r, cands)
    return ([A_block(pid, c[0], c[1], c[2], c[2] + 2)], {}) if c else None


def prop_split_write(r, S, pid, f):
    x = _pick(r, f.get("Assign", "Reduce"))
    return ([A_node(pid, x[0])], {}) if x else None


def prop_fold_into_reduce(r, S, pid, f):
    x = _pick(r, f.get("Assign"))
    return ([A_node(pid, x[0])], {}) if x else None


def prop_inline_assign(r, S, pid, f):
    x = _pick(r, f.get("Assign"))
    return ([A_node(pid, x[0])], {}) if x else None


def prop_lift_reduce_constant(r, S, pid, f):
    cands = []
    for p, s in f.get("Assign"):
        anchor, attr, idx, n = f.block_of(p)
        if idx + 1 < n:
            cands.append((anchor, attr, idx))
    c = _pick(r, cands)
    return ([A_block(pid, c[0], c[1], c[2], c[2] + 2)], {}) if c else None


def prop_fission(r, S, pid, f):
    cands = [(p, s) for p, s in f.stmts if len(p) >= 2]
    x = _pick(r, cands)
    if not x:
        return None
    after = r.random() < 0.6
    if r.random() < 0.8:
        # mostly well-formed requests: a gap strictly inside its block, no more lifts than enclosing scopes
        _, _, idx, n = f.block_of(x[0])
        if n < 2:
            return None
        after = idx < n - 1 if (idx == 0 or idx == n - 1) else after
        depth = len(x[0]) - 1
        return [A_gap(pid, x[0], after)], {"n_lifts": min(depth, r.choice([1, 1, 2, 2, 3]))}
    return [A_gap(pid, x[0], after)], {"n_lifts": r.choice([1, 1, 2, 2, 3])}


def prop_autofission(r, S, pid, f):
    cands = [(p, s) for p, s in f.stmts if len(p) >= 2]
    x = _pick(r, cands)
    return ([A_gap(pid, x[0], r.random() < 0.6)], {"n_lifts": r.choice([1, 2])}) if x else None


def prop_fuse(r, S, pid, f):
    cands = []
    for p, s in f.get("For", "If"):
        anchor, attr, idx, n = f.block_of(p)
        if idx + 1 < n:
            cands.append((p, anchor + [(attr, idx + 1)]))
    c = _pick(r, cands)
    return ([A_node(pid, c[0]), A_node(pid, c[1])], {}) if c else None


def prop_remove_loop(r, S, pid, f):
    a, _ = _loop(r, f, pid)
    return ([a], {}) if a else None


def prop_add_loop(r, S, pid, f):
    b = _some_block(r, f, pid, max_len=2)
    if not b:
        return None
    return [b, A_val(r.choice(["r0", "rr"])), A_val(r.choice(["2", "n", "4", "1"]))], {"guard": r.random() < 0.5}


def prop_unroll_loop(r, S, pid, f):
    a, _ = _loop(r, f, pid)
    return ([a], {}) if a else None


def prop_lift_scope(r, S, pid, f):
    cands = [(p, s) for p, s in f.get("For", "If") if len(p) >= 2]
    x = _pick(r, cands)
    return ([A_node(pid, x[0])], {}) if x else None


def prop_eliminate_dead_code(r, S, pid, f):
    x = _pick(r, f.get("For", "If"))
    return ([A_node(pid, x[0])], {}) if x else None


def prop_specialize(r, S, pid, f):
    b = _some_block(r, f, pid, max_len=2)
    if not b:
        return None
    conds = r.choice([["n > 2"], ["n == 1", "n == 2"], ["m <= 2"], ["n % 2 == 0"], ["flag"], ["n > m"]])
    return [b, A_val(conds)], {}


def prop_insert_noop_call(r, S, pid, f):
    x = _pick(r, f.stmts)
    if not x:
        return None
    bufs = [a for a in f.ir.args if a.type.is_numeric() and len(a.type.shape()) == 1]
    if not bufs:
        return None
    b = r.choice(bufs)
    ext = str(b.type.shape()[0])
    return [A_gap(pid, x[0], r.random() < 0.5), A_proc("zero4"), A_val([f"{b.name}[0:4]"])], {}


PROPOSERS = {k[5:]: v for k, v in list(globals().items()) if k.startswith("prop_")}
# schedule idioms: what real schedules (exo.stdlib, the apps) typically do next; part of the
# draws follow them so that states several steps deep are reached as often as shallow ones
FOLLOW = {
    "inline": ["inline_window", "simplify", "inline", "reorder_stmts", "fission"],
    "inline_window": ["simplify", "inline_window", "unroll_loop"],
    "divide_loop": ["replace", "simplify", "unroll_loop", "reorder_loops", "stage_mem", "fission", "divide_loop", "lift_scope", "parallelize_loop"],
    "divide_with_recompute": ["simplify", "stage_mem", "reorder_loops", "fission"],
    "stage_mem": ["simplify", "inline_window", "unroll_loop", "set_memory", "replace", "lift_alloc", "divide_loop", "fission", "resize_dim"],
    "fission": ["reorder_loops", "fuse", "remove_loop", "fission", "replace", "lift_scope", "unroll_loop"],
    "bind_expr": ["expand_dim", "lift_alloc", "fission", "set_memory", "set_precision"],
    "expand_dim": ["lift_alloc", "fission", "resize_dim", "divide_dim", "unroll_buffer"],
    "lift_alloc": ["fission", "expand_dim", "reuse_buffer", "sink_alloc", "resize_dim"],
    "write_config": ["call_eqv", "delete_config", "reorder_stmts", "fission", "bind_config"],
    "bind_config": ["delete_config", "call_eqv", "reorder_stmts", "write_config"],
    "delete_config": ["call_eqv", "write_config"],
    "extract_subproc": ["inline", "call_eqv", "replace", "simplify"],
    "replace": ["inline", "call_eqv", "simplify", "replace"],
    "cut_loop": ["join_loops", "shift_loop", "unroll_loop", "fuse", "simplify", "eliminate_dead_code", "replace", "replace"],
    "shift_loop": ["simplify", "cut_loop", "join_loops", "fuse", "replace", "replace"],
    "unroll_loop": ["simplify", "merge_writes", "reorder_stmts", "unroll_buffer", "inline_assign", "fold_into_reduce"],
    "specialize": ["eliminate_dead_code", "simplify", "lift_scope", "fuse"],
    "lift_scope": ["fission", "eliminate_dead_code", "specialize", "reorder_loops", "fuse"],
    "reorder_loops": ["fission", "lift_scope", "stage_mem", "divide_loop", "parallelize_loop", "fuse"],
    "add_loop": ["remove_loop", "fuse", "reorder_loops", "unroll_loop"],
    "fuse": ["fission", "inline_assign", "merge_writes", "resize_dim", "reuse_buffer", "delete_buffer", "sink_alloc"],
    "mult_loops": ["divide_loop", "simplify"],
    "resize_dim": ["simplify", "stage_mem", "reuse_buffer", "unroll_buffer"],
    "simplify": ["eliminate_dead_code", "replace", "fold_into_reduce", "merge_writes"],
}
SEM_EXCLUDED_OPS = {"add_unsafe_guard", "make_instr"}
# ops whose results are the second element of a tuple etc.
TUPLE_OPS = {"extract_subproc"}


# --------------------------------------------------------------------------- #
# the session


class Session:
    def __init__(self, data: dict, log_keep=False):
        self.data = data
        self.log = EventLog(keep=log_keep)
        self.probes = Probes()
        self.procs = {}  # pid -> Procedure
        self.parent = {}  # pid -> pid it was derived from
        self.created = {}  # pid -> (fingerprint, str) at creation
        self.tainted = set()
        self.viol = None
        self.faults = {"F1_planned": 0, "F1_fired": 0, "F2_planned": 0, "F2_fired": 0, "F3_planned": 0, "F3_fired": 0,
                       "F3_swallowed": 0, "compile_crash": 0, "stale_cursor": 0}
        self.ops = {}  # name -> [accepted, rejected]
        self.crash = CrashSeam()
        self.solver = SolverSeam()
        self.ns = None
        self.sem = None
        self.checks = data.get("checks", {})
        self.n_compared = 0
        self.props = set(data.get("props") or ["C01", "C04", "C05", "C06", "C07", "C10"])
        self.known = data.get("known") or []
        self.known_hits = {}
        self.other_props = {}
        self.all_viols = []
        self.cache_seen = {}
        self.fwd_memo = {}
        self.cursors = []
        self.z3_unknown = False
        self.cur_kw = {}
        self.unprintable = None

    # -- environment ---------------------------------------------------- #

    def setup(self):
        from .seams import salt_begin_run
        from .kernel import derive_seed

        # seam S3: set/dict order over Syms, procs, configs and memories becomes a
        # function of the session, not of memory addresses
        salt_begin_run(derive_seed("salt", self.data.get("inputs_seed", 0), self.data.get("src", "")) & ((1 << 48) - 1))
        self.solver.install()
        lib = define(gen_prog.LIB_SRC, tag="lib")
        ns = define(self.data["src"], dict(lib, SimStatic=get_simstatic()), tag="prog")
        self.ns = ns
        from exo.API import Procedure

        for nm in gen_prog.LIB_PROCS:
            self._add(nm, ns[nm], None)
        for nm, v in ns.items():
            if isinstance(v, Procedure) and nm not in self.procs and not nm.startswith("_"):
                self._add(nm, v, None)
        if self.checks.get("sem"):
            from .oracles.semantic import SemOracle

            self.sem = SemOracle(
                substream(self.data.get("inputs_seed", 0), "sem-inputs"), self.probes,
                n_inputs=self.checks.get("sem_inputs", 2), max_steps=40000,
            )

    def _add(self, pid, p, parent):
        self.procs[pid] = p
        self.parent[pid] = parent
        if self.checks.get("pure"):
            self.created[pid] = (fingerprint(p._loopir_proc), self._safe_str(p))

    @staticmethod
    def _safe_str(p):
        try:
            return str(p)
        except Exception as e:  # a malformed procedure (C04's business) that the printer rejects
            return f"<unprintable {type(e).__name__}>"

    def callee_pool(self):
        return [k for k in self.procs if k in gen_prog.LIB_PROCS or k.startswith("s")] or list(gen_prog.LIB_PROCS)

    def root_pid(self, pid):
        while self.parent.get(pid) is not None:
            pid = self.parent[pid]
        return pid

    def variants_of(self, callee_ir):
        # procs of the session whose root is the library proc this callee descends from
        roots = {}
        for pid, p in self.procs.items():
            roots.setdefault(self.root_pid(pid), []).append(pid)
        for root, members in roots.items():
            if any(self.procs[m]._loopir_proc is callee_ir for m in members):
                return members
        return []

    @staticmethod
    def shape_of(ir, sym):
        for a in ir.args:
            if a.name == sym:
                return [str(h) for h in a.type.shape()] if a.type.is_numeric() else None
        for p, s in stmt_paths(ir):
            if isinstance(s, LoopIR.Alloc) and s.name == sym:
                return [str(h) for h in s.type.shape()]
        return None

    # -- argument materialisation --------------------------------------- #

    def mat(self, a):
        if isinstance(a, list):
            return [self.mat(x) for x in a]
        t = a["t"]
        if t == "val":
            return a["v"]
        if t == "proc":
            if a["p"] not in self.procs:
                raise SkipOp()
            return self.procs[a["p"]]
        if t == "mem":
            return self.ns[a["v"]]
        if t == "cfg":
            return self.ns[a["v"]]
        if a["p"] not in self.procs:
            raise SkipOp()
        p = self.procs[a["p"]]
        ir = p._loopir_proc
        try:
            if t == "argc":
                return p.args()[a["i"]]
            path = [(x[0], x[1]) for x in a["path"]]
            if t == "node":
                n = IC.Node(ir, path)
                n._node  # resolve now
                return AC.lift_cursor(n, p)
            if t == "gap":
                n = IC.Node(ir, path)
                n._node
                return AC.lift_cursor(IC.Gap(ir, n, IC.GapType.After if a["after"] else IC.GapType.Before), p)
            if t == "block":
                n = IC.Node(ir, path)
                stmts = getattr(n._node, a["attr"])
                if not (0 <= a["lo"] < a["hi"] <= len(stmts)):
                    raise SkipOp()
                return AC.lift_cursor(IC.Block(ir, n, a["attr"], range(a["lo"], a["hi"])), p)
        except (IndexError, AttributeError, TypeError, AssertionError):
            raise SkipOp()
        raise SkipOp()

    # -- violations ------------------------------------------------------ #

    def violate(self, prop, sig, detail, op, extra=None):
        if prop not in self.props:
            self.other_props[prop] = self.other_props.get(prop, 0) + 1
            return
        key = {"op": op, "sig": sig, "engine": "session"}
        if extra:
            key.update(extra)
        for k in self.known:
            if all(key.get(a) == b for a, b in k["match"].items()):
                self.known_hits[k["text"]] = self.known_hits.get(k["text"], 0) + 1
                self.log.log("known-finding", prop=prop, sig=sig, op=op)
                return
        if self.viol is None:
            self.viol = {"prop": prop, "sig": sig, "detail": detail, "key": key}
        self.all_viols.append({"prop": prop, "sig": sig, "detail": detail[:400], "key": key})
        self.log.log("violation", prop=prop, sig=sig, op=op)

    def all_violations(self):
        return self._all

    # -- purity ---------------------------------------------------------- #

    @staticmethod
    def cursor_snapshot(cur):
        """Plain-data view of a public cursor: which procedure, which location, and
        (for nodes) which IR object it resolves to."""
        impl = cur._impl
        base = (type(cur).__name__, id(cur._proc) if hasattr(cur, "_proc") else None, id(impl._root))
        try:
            if isinstance(impl, IC.Node):
                return base + ("node", tuple(map(tuple, impl._path)), id(IC.Node(impl._root, list(impl._path))._node))
            if isinstance(impl, IC.Gap):
                return base + ("gap", tuple(map(tuple, impl._anchor._path)), str(impl._type))
            if isinstance(impl, IC.Block):
                return base + ("block", tuple(map(tuple, impl._anchor._path)), impl._attr, impl._range.start, impl._range.stop)
        except Exception as e:  # a path that no longer resolves in its OWN procedure
            return base + ("unresolvable", type(e).__name__)
        return base + ("other",)

    def remember_cursors(self, args):
        from exo.API_cursors import Cursor

        def rec(a):
            if isinstance(a, Cursor):
                if len(self.cursors) < 80 and hasattr(a, "_impl"):
                    self.cursors.append((a, self.cursor_snapshot(a)))
            elif isinstance(a, (list, tuple)):
                for x in a:
                    rec(x)

        rec(args)

    def check_cursors(self, when, op):
        for i, (cur, snap) in enumerate(self.cursors):
            now = self.cursor_snapshot(cur)
            self.probes.hit("pure_cursor_checked")
            if now != snap:
                self.cursors[i] = (cur, now)
                self.violate("C07", "cursor-mutated", f"a cursor obtained earlier changed {when} {op}: {snap[3:]} became {now[3:]}", op)
                return

    def check_pure(self, when, op, with_str=False):
        from .oracles.fingerprint import cache_snapshot

        self.check_cursors(when, op)

        for cn, pname in cache_snapshot(self.cache_seen):
            self.violate(
                "C07", "analysis-cache-entry-mutated",
                f"cached analysis of sub-procedure '{pname}' in {cn} changed {when} {op}; the entry is shared with every later analysis",
                op, {"cache": cn},
            )
        for pid, (fp, st) in self.created.items():
            p = self.procs[pid]
            self.probes.hit("pure_checked")
            if fingerprint(p._loopir_proc) != fp:
                self.created[pid] = (fingerprint(p._loopir_proc), self._safe_str(p))
                self.violate("C07", "source-procedure-mutated", f"procedure {pid} changed structurally {when} {op}", op)
            elif with_str and self._safe_str(p) != st:
                self.created[pid] = (fp, self._safe_str(p))
                self.violate("C07", "source-procedure-prints-differently", f"str({pid}) changed {when} {op}", op)

    # -- one op ----------------------------------------------------------- #

    def outcome_sig(self, out):
        from exo.API import Procedure

        if out[0] == "exc":
            return ("exc", type(out[1]).__name__)
        v = out[1]
        def pr(x):
            try:
                return str(x)
            except Exception as e:  # the printer (yapf) rejects the text: malformed procedure
                self.unprintable = f"{type(e).__name__}: {str(e)[:160]}"
                return f"<unprintable {type(e).__name__}>"

        if isinstance(v, Procedure):
            return ("proc", pr(v))
        if isinstance(v, tuple):
            return ("tuple",) + tuple(pr(x) for x in v)
        return ("val", str(v)[:200])

    def apply(self, rec):
        import exo.API_scheduling as AS
        from exo.API import Procedure

        name = rec["op"]
        pid = rec["on"]
        self.cur_rec = rec
        if pid not in self.procs:
            self.probes.hit("op_skipped_missing_proc")
            return
        if name == "compile":
            return self.apply_compile(rec)
        if name == "explicit_forward_probe":
            return
        if name == "query":
            return self.apply_query(rec)
        op = getattr(AS, name)
        p = self.procs[pid]
        try:
            args = self.mat(rec["args"])
        except SkipOp:
            self.probes.hit("op_skipped_unresolvable_arg")
            return
        kw = dict(rec.get("kw") or {})
        self.cur_kw = kw
        if self.checks.get("pure"):
            self.remember_cursors(args)
        call = lambda: op(p, *[list(a) if isinstance(a, list) else a for a in args], **kw)  # noqa: E731
        fault = rec.get("fault")
        unsafe = name in SEM_EXCLUDED_OPS or any(k.startswith("unsafe") and v for k, v in kw.items())
        if rec.get("stale"):
            self.faults["stale_cursor"] += 1

        if not fault:
            try:
                out = ("ret", call())
            except Exception as e:
                out = ("exc", e)
        else:
            out = self.faulted(name, call, fault, pid)
        self.unprintable = None
        if _solver_unknown(out):
            self.z3_unknown = True
        sig = self.outcome_sig(out)
        unprintable_now = bool(self.unprintable and out[0] == "ret")
        if unprintable_now and pid in self.tainted:
            self.probes.hit("unprintable_inherited")
        elif unprintable_now:
            self.violate("C04", "unprintable-procedure", f"{name} returned a procedure that cannot be printed: {self.unprintable}", name)
        self.log.log("op", op=name, on=pid, o=sig[0], h=stable_hash(*sig[1:]) if sig[0] != "exc" else sig[1])
        st = self.ops.setdefault(name, [0, 0])
        st[0 if out[0] == "ret" else 1] += 1

        if self.checks.get("pure"):
            self.check_pure("after", name)
        # C06: a call that failed (or was interrupted and retried) leaves the forwarding
        # functions created by earlier operations unchanged
        if self.checks.get("fwd") and (out[0] != "ret" or fault) and self.parent.get(pid) is not None:
            self.check_fwd_stable(name, pid, bool(fault))
        # implicit = explicit forwarding (C06 item 4)
        if rec.get("stale") and self.checks.get("fwd") and not fault:
            self.check_implicit_explicit(name, op, p, args, kw, out)
        if out[0] != "ret":
            return
        res = out[1]
        results = [x for x in (res if isinstance(res, tuple) else (res,)) if isinstance(x, Procedure)]
        if not results:
            return
        r0 = results[0]
        if r0 is p:
            return
        self._add(rec["out"], r0, pid)
        if len(results) > 1:
            self._add(rec["out"] + "s", results[1], None)
        def _proc_args(a):
            if isinstance(a, list):
                for x in a:
                    yield from _proc_args(x)
            elif isinstance(a, dict) and a.get("t") == "proc":
                yield a["p"]

        if unsafe or unprintable_now or pid in self.tainted or any(q in self.tainted for q in _proc_args(rec["args"])):
            self.tainted.add(rec["out"])
        if self.checks.get("fwd"):
            self.check_fwd(name, pid, rec["out"])
            self.fwd_memo_for(rec["out"])
        if self.checks.get("valid") and rec["out"] in self.tainted:
            # derived from a procedure that was already malformed (a recorded or reported
            # violation at an earlier step): whatever is wrong now is not this step's doing
            self.probes.hit("valid_skipped_tainted_input")
        elif self.checks.get("valid"):
            from .oracles.validator import validate, binder_kind

            bad_in = {x[0] for x in validate(p._loopir_proc)}
            for sg, d, sym in validate(r0._loopir_proc):
                if sg not in bad_in:
                    ex_ = {"binder": binder_kind(p._loopir_proc, sym)}
                    if d.startswith("allocation extent"):
                        # "alloc-extent": the loop that declared the variable no longer exists in the result
                        # (it was divided / fused / ... and its variable substituted); otherwise the
                        # allocation was moved out of a loop that is still there
                        ex_["where"] = "alloc-extent" if binder_kind(r0._loopir_proc, sym) == "none" else "alloc-extent-moved-out"
                    self.violate("C04", sg, f"after {name}: {d}", name, ex_)
                    self.tainted.add(rec["out"])
                    break
                self.probes.hit("valid_inherited")
        if self.sem is not None and rec["out"] not in self.tainted:
            self.check_sem(name, pid, rec["out"])

    def check_sem(self, name, pid_in, pid_out, tag=""):
        root = self.root_pid(pid_out)
        if root in self.tainted:
            return
        vs = self.sem.check(
            self.procs[root]._loopir_proc, self.procs[pid_out]._loopir_proc, op_name=name,
            in_ir=self.procs[pid_in]._loopir_proc,
        )
        self.n_compared += 1
        if vs:
            # a procedure that already misbehaves cannot be the yardstick for later steps
            self.tainted.add(pid_out)
        for v in vs:
            prop = v["prop"]
            if v["sig"] in getattr(self, "_suppress_sigs", ()):
                self.probes.hit("sem_fault_variant_same_as_fault_free")
                continue
            if name in ("replace",) and prop in ("C01", "C04"):
                prop = "C05"
            extra = None
            if name == "replace":
                extra = {"pred": self.replace_pred(pid_in, pid_out)}
            elif name == "resize_dim":
                extra = {"pred": "fold" if self.cur_kw.get("fold") else ""}
            elif name in ("delete_config", "write_config", "bind_config"):
                has = any(
                    isinstance(st, LoopIR.Call) and any(isinstance(e, LoopIR.ReadConfig) for e in st.args)
                    for q in (pid_in, pid_out)
                    for _, st in stmt_paths(self.procs[q]._loopir_proc)
                )
                extra = {"pred": "config-field-passed-as-call-argument" if has else ""}
            elif name == "lift_scope":
                extra = {"pred": self.lift_scope_pred(pid_in)}
            elif name in ("fission", "autofission"):
                extra = {"pred": self.fission_pred(pid_in)}
                if name == "autofission" and not extra["pred"]:
                    n_in = sum(1 for _, st in stmt_paths(self.procs[pid_in]._loopir_proc) if isinstance(st, LoopIR.For))
                    n_out = sum(1 for _, st in stmt_paths(self.procs[pid_out]._loopir_proc) if isinstance(st, LoopIR.For))
                    if n_out <= n_in:
                        extra["pred"] = "loop-dropped"
            if v["sig"] in ("buffer-differs", "unreported-config-change", "config-differs", "uninitialised-read"):
                has_cfgarg = any(
                    isinstance(st, LoopIR.Call) and any(isinstance(e, LoopIR.ReadConfig) for e in st.args)
                    for q in (pid_in, pid_out)
                    for _, st in stmt_paths(self.procs[q]._loopir_proc)
                )
                if has_cfgarg:
                    extra = dict(extra or {}, cfgarg="config-field-passed-as-call-argument")
            if self.target_object_shared(pid_in):
                extra = dict(extra or {}, shared="target-object-shared")
            if v["sig"] == "unbound-use":
                from .oracles.validator import binder_kind

                extra = dict(extra or {}, binder=binder_kind(self.procs[pid_in]._loopir_proc, v["detail"].split(" ")[0]))
            self.violate(prop, v["sig"], f"after {name}{tag}: {v['detail']}", name + tag, extra)

    def target_object_shared(self, pid_in):
        """Does a cursor argument of the current call denote a statement OBJECT that occurs at
        several places of the input procedure (specialize, cut_loop tails ... leave the same
        object in all copies)?  exo's ContextExtraction finds the statement by identity and so
        analyses the first occurrence whatever the cursor said."""
        try:
            ir = self.procs[pid_in]._loopir_proc
            cnt = {}
            for _p, st in stmt_paths(ir):
                cnt[id(st)] = cnt.get(id(st), 0) + 1

            def targets(a):
                if isinstance(a, list):
                    for x in a:
                        yield from targets(x)
                elif isinstance(a, dict) and a.get("t") in ("node", "gap", "block") and a.get("p") == pid_in:
                    yield a

            for a in targets(self.cur_rec["args"]):
                node = ir
                pth = [tuple(x) for x in a["path"]]
                # statement part of the path only
                for attr, i in pth:
                    if attr not in ("body", "orelse"):
                        break
                    node = getattr(node, attr)[i]
                    if cnt.get(id(node), 0) > 1:
                        return True
                if a["t"] == "block":
                    for st in getattr(node, a["attr"])[a["lo"] : a["hi"]]:
                        if cnt.get(id(st), 0) > 1:
                            return True
        except Exception:
            pass
        return False

    def lift_scope_pred(self, pid_in):
        """Structural class of the recorded lift_scope defect: an `if` WITHOUT else is lifted out of
        an enclosing `if` whose other branch is not empty (DoLiftScope only builds the new else
        part `if inner_s.orelse`, so the other branch is dropped when the inner condition fails)."""
        try:
            a = self.cur_rec["args"][0]
            ir = self.procs[a["p"]]._loopir_proc
            node, parent, which = ir, None, None
            for attr, i in [tuple(x) for x in a["path"]]:
                parent, which = node, attr
                node = getattr(node, attr)[i]
            n_lifts = int((self.cur_rec.get("kw") or {}).get("n_lifts", 1))
            if isinstance(node, LoopIR.If) and not node.orelse and isinstance(parent, LoopIR.If):
                other = parent.body if which == "orelse" else parent.orelse
                if other:
                    return "inner-if-without-else-under-if-with-other-branch"
            if isinstance(node, LoopIR.If) and not node.orelse and n_lifts > 1:
                return "inner-if-without-else-multi-lift"
        except Exception:
            pass
        return ""

    def fission_pred(self, pid_in):
        """Structural class of the recorded fission defect: with respect to one of
        the loops being split, the first half only WRITES (assigns / reduces) a
        location that does not move with that loop and never reads it, and the
        second half uses that buffer.  (The dependence carried by the loop through
        a loop-invariant location is missed.)"""
        try:
            rec = self.cur_rec
            g = rec["args"][0]
            src = self.procs[g["p"]]._loopir_proc
            path = [(a, i) for a, i in g["path"]]
            n_lifts = int((rec.get("kw") or {}).get("n_lifts", 1))
            # walk up: at each level collect statements before / after the cut inside the enclosing loop
            nodes = [src]
            node = src
            for a, i in path:
                node = getattr(node, a)
                if i is not None:
                    node = node[i]
                nodes.append(node)
            first, second = [], []
            level = len(path) - 1
            cut_after = bool(g.get("after"))
            lifts = 0
            while level >= 0 and lifts < n_lifts:
                parent = nodes[level]
                attr, idx = path[level]
                stmts = getattr(parent, attr)
                cut = idx + 1 if cut_after else idx
                first = list(stmts[:cut]) if level == len(path) - 1 else list(stmts[:idx]) + first
                second = (list(stmts[cut:]) if level == len(path) - 1 else second + list(stmts[idx + 1 :]))
                if isinstance(parent, LoopIR.For):
                    lifts += 1
                    it = parent.iter
                    wr, rd1 = {}, set()

                    def mentions(e, sym):
                        return any(nm == sym for _, nm in _reads_of(e))

                    def scan1(ss):
                        for st in ss:
                            if isinstance(st, (LoopIR.Assign, LoopIR.Reduce)):
                                inv = not any(mentions(e, it) for e in st.idx)
                                wr.setdefault(st.name, []).append(inv)
                                for _p, nm in _reads_of(st.rhs):
                                    rd1.add(nm)
                            elif isinstance(st, LoopIR.If):
                                for _p, nm in _reads_of(st.cond):
                                    rd1.add(nm)
                                scan1(st.body)
                                scan1(st.orelse)
                            elif isinstance(st, LoopIR.For):
                                scan1(st.body)
                            elif isinstance(st, LoopIR.Call):
                                for e in st.args:
                                    if isinstance(e, (LoopIR.Read, LoopIR.WindowExpr)):
                                        rd1.add(e.name)

                    used2 = set()
                    mod2 = set()

                    def scan2(ss):
                        for st in ss:
                            if isinstance(st, (LoopIR.Assign, LoopIR.Reduce)):
                                used2.add(st.name)
                                mod2.add(st.name)
                                for _p, nm in _reads_of(st.rhs):
                                    used2.add(nm)
                            elif isinstance(st, LoopIR.If):
                                for _p, nm in _reads_of(st.cond):
                                    used2.add(nm)
                                scan2(st.body)
                                scan2(st.orelse)
                            elif isinstance(st, LoopIR.For):
                                scan2(st.body)
                            elif isinstance(st, LoopIR.Call):
                                for e in st.args:
                                    if isinstance(e, (LoopIR.Read, LoopIR.WindowExpr)):
                                        used2.add(e.name)
                                        if e.type.is_numeric():
                                            mod2.add(e.name)

                    scan1(first)
                    scan2(second)
                    # the recorded defect (Commutes_Fissioning's `a1_idempotent` shortcut): the first half
                    # never mentions the loop variable, and the SECOND half MODIFIES (assigns / reduces)
                    # a location the first half writes.  When the second half only reads it the shortcut
                    # is valid, so a difference there is something else.
                    first_mentions_it = any(
                        nm_ == it for st in first for _p, nm_ in _stmt_reads(st)
                    )
                    w1 = set(wr)
                    for st in first:
                        for _pp, st2 in _walk_stmts(st):
                            if isinstance(st2, LoopIR.Call):
                                for e in st2.args:
                                    if isinstance(e, (LoopIR.Read, LoopIR.WindowExpr)) and e.type.is_numeric():
                                        w1.add(e.name)
                    if not first_mentions_it and (w1 & mod2):
                        return "invariant-location-written-then-used"
                elif isinstance(parent, LoopIR.If):
                    lifts += 1  # n_lifts counts every enclosing scope that is crossed
                level -= 1
                cut_after = False
        except Exception:
            pass
        return ""

    def replace_pred(self, pid_in, pid_out):
        """Structural predicate used to keep the known-finding key for replace
        narrow: does the replaced code touch a buffer that is not passed to the
        new call?  (One callee buffer unified with two different buffers.)"""
        try:
            a, b = self.procs[pid_in]._loopir_proc, self.procs[pid_out]._loopir_proc
            old_ids = {id(s) for _, s in stmt_paths(a)}
            new_calls = [s for _, s in stmt_paths(b) if isinstance(s, LoopIR.Call) and id(s) not in old_ids]
            new_ids = {id(s) for _, s in stmt_paths(b)}
            gone = [s for pth, s in stmt_paths(a) if id(s) not in new_ids and len(pth) >= 1]
            # outermost removed statements only
            passed = set()
            for c in new_calls:
                for e in c.args:
                    if isinstance(e, (LoopIR.Read, LoopIR.WindowExpr)) and e.type.is_numeric():
                        passed.add(e.name)
            touched = {sym for _, _, sym in _buffers_in(gone)}
            scal = set()
            for st in gone:
                if isinstance(st, (LoopIR.Assign, LoopIR.Reduce)) and not st.idx:
                    scal.add(st.name)
            if new_calls and (touched - passed):
                return "block-buffer-not-passed"
        except Exception:
            pass
        return ""

    def check_fwd(self, name, pid_in, pid_out):
        from .oracles.forwarding import check_forwarding

        hops = [pid_in]
        q = self.parent.get(pid_in)
        while q is not None and len(hops) < 4:
            hops.append(q)
            q = self.parent.get(q)
        for hop, src in enumerate(hops):
            soft = []
            vs = check_forwarding(
                self.procs[src], self.procs[pid_out], self.probes, max_stmts=120,
                want_gaps=(hop == 0), want_blocks=(hop == 0), chain=[self.procs[q] for q in hops[:hop]], soft=soft,
            )
            for sv in soft[:1]:
                self.probes.hit(f"soft_{sv['sig']}:{name}")
                if self.data.get("soft_log") is not None:
                    self.data["soft_log"].append((name, sv["sig"], sv["detail"]))
            if vs and hop > 0:
                # only what this step introduced: cursors whose forwarding to the
                # input procedure was already wrong were reported at that step
                from .kernel import Probes

                old = check_forwarding(self.procs[src], self.procs[pid_in], Probes(), max_stmts=120,
                                       want_gaps=False, want_blocks=False)
                bad_paths = {json_path(v["path"]) for v in old}
                kept = [v for v in vs if json_path(v["path"]) not in bad_paths]
                if len(kept) != len(vs):
                    self.probes.hit("fwd_inherited_violation", len(vs) - len(kept))
                vs = kept
            if vs:
                v = vs[0]
                ex = {"stmt": v["stmt_class"]}
                if v.get("attr"):
                    ex["attr"] = v["attr"]
                if v.get("exc"):
                    ex["exc"] = v["exc"]
                self.violate(
                    "C06", v["sig"], f"after {name} (hop {hop}): {v['detail']} [cursor path {v['path']}]", name, ex,
                )
                break

    def fwd_memo_for(self, pid):
        from .oracles.forwarding import forward_map

        if pid not in self.fwd_memo:
            hops = []
            q = self.parent.get(pid)
            while q is not None and len(hops) < 3:
                hops.append(q)
                q = self.parent.get(q)
            self.fwd_memo[pid] = {h: forward_map(self.procs[h], self.procs[pid]) for h in hops}
        return self.fwd_memo[pid]

    def check_fwd_stable(self, name, pid, faulted):
        from .oracles.forwarding import forward_map

        memo = self.fwd_memo.get(pid)
        if memo is None:
            return
        for h, before in memo.items():
            now = forward_map(self.procs[h], self.procs[pid])
            self.probes.hit("fwd_stability_checked")
            if now != before:
                d = next(((a, b) for a, b in zip(before, now) if a != b), (None, None))
                self.violate(
                    "C06", "forwarding-changed-by-failed-call",
                    f"after {'an interrupted' if faulted else 'a rejected'} {name} on {pid}, forwarding {h} -> {pid} differs: "
                    f"{d[0]} became {d[1]}", name,
                )
                self.fwd_memo[pid][h] = now
                break

    def check_implicit_explicit(self, name, op, p, args, kw, out):
        from exo.API_cursors import Cursor

        def fwd(a):
            if isinstance(a, Cursor) and a.proc() is not p:
                return p.forward(a)
            if isinstance(a, list):
                return [fwd(x) for x in a]
            return a

        try:
            ex_args = [fwd(a) for a in args]
        except Exception as e:
            out2 = ("exc", e)
        else:
            try:
                out2 = ("ret", op(p, *ex_args, **kw))
            except Exception as e:
                out2 = ("exc", e)
        if _solver_unknown(out) or _solver_unknown(out2):
            # z3 answered `unknown` in one of the two executions: outcome of an incomplete
            # external prover, not of forwarding (same rule as the retry oracle)
            self.probes.hit("implicit_explicit_skipped_solver_unknown")
            self.z3_unknown = True
            return
        s1, s2 = self.outcome_sig(out), self.outcome_sig(out2)
        self.probes.hit("implicit_explicit_compared")
        if s1[0] != s2[0] or (s1[0] != "exc" and s1 != s2):
            self.violate(
                "C06", "implicit-differs-from-explicit",
                f"{name} with a stale cursor gives {s1[0]} but with the explicitly forwarded cursor {s2[0]} "
                f"({s1[1] if s1[0]=='exc' else ''} / {s2[1] if s2[0]=='exc' else ''})", name,
            )

    def faulted(self, name, call, fault, pid):
        kind = fault["kind"]
        self.solver.begin({})
        ref, n_events = self.crash.run(call)
        n_q = self.solver.n
        if ref[0] == "exc" and not isinstance(ref[1], Exception):
            raise ref[1]
        ref_sig = self.outcome_sig(ref)
        if kind in ("F1", "F2") and n_q == 0:
            kind = "F3c"
            self.probes.hit("fault_downgraded_no_solver_query")
        if kind in ("F1", "F2"):
            # the fault lands on up to three different queries of this call (one execution each): which
            # query an incomplete solver gives up on is not ours to choose, and fail-open handling
            # usually sits behind one particular query
            q0 = int(fault["u"] * n_q) % max(1, n_q)
            step = max(1, n_q // 3)
            qs = sorted({1 + (q0 + j * step) % n_q for j in range(min(3, n_q))})
            ref_sem_sigs = None
            for q in qs:
                self.faults[kind + "_planned"] += 1
                self.solver.begin({q: kind})
                try:
                    out2 = ("ret", call())
                except Exception as e:
                    out2 = ("exc", e)
                fired = bool(self.solver.fired)
                self.solver.begin({})
                if fired:
                    self.faults[kind + "_fired"] += 1
                    self.probes.hit(f"{kind}_{'returned' if out2[0]=='ret' else 'raised'}")
                self.log.log("fault", f=kind, q=q, fired=fired, o=out2[0])
                if fired and out2[0] == "ret" and self.sem is not None and pid not in self.tainted:
                    from exo.API import Procedure

                    r = out2[1][0] if isinstance(out2[1], tuple) else out2[1]
                    if isinstance(r, Procedure) and r is not self.procs[pid]:
                        # what the FAULT-FREE result of this very call already gets wrong is the call's
                        # doing (judged below under the plain op name), not the fault's
                        if ref_sem_sigs is None:
                            ref_sem_sigs = set()
                            r_ref = ref[1][0] if (ref[0] == "ret" and isinstance(ref[1], tuple)) else (ref[1] if ref[0] == "ret" else None)
                            if isinstance(r_ref, Procedure) and r_ref is not self.procs[pid]:
                                try:
                                    root = self.root_pid(pid)
                                    ref_sem_sigs = {v["sig"] for v in self.sem._check(self.procs[root]._loopir_proc, r_ref._loopir_proc, name)}
                                except Exception:
                                    ref_sem_sigs = set()
                        tmp = f"_f{len(self.procs)}"
                        self.procs[tmp] = r
                        self.parent[tmp] = pid
                        self._suppress_sigs = ref_sem_sigs
                        try:
                            self.check_sem(name, pid, tmp, tag=f"[{kind}]")
                        finally:
                            self._suppress_sigs = set()
                            del self.procs[tmp]
                            del self.parent[tmp]
                if self.viol is not None:
                    break
        else:
            k = 1 + int(fault["u"] * n_events) % max(1, n_events)
            self.faults["F3_planned"] += 1
            tgt = self.crash.pick_stratified(fault["u"]) if fault.get("strat") else None
            out2, _ = self.crash.run(call, k=None if tgt else k, target=tgt,
                                     exc=make_crash_exc("interrupt" if kind == "F3i" else "crash", f"{name}@{tgt or k}"))
            if self.crash.fired:
                self.faults["F3_fired"] += 1
                if not isinstance(out2[1], (SimCrash, SimInterrupt)):
                    self.faults["F3_swallowed"] += 1
            self.log.log("fault", f=kind, k=k, fired=self.crash.fired, at=self.crash.fired_at, o=out2[0])
        if self.checks.get("pure"):
            self.check_pure(f"after-faulted[{kind}]", name)
        try:
            out3 = ("ret", call())
        except Exception as e:
            out3 = ("exc", e)
        s3 = self.outcome_sig(out3)
        if _solver_unknown(ref) or _solver_unknown(out3):
            self.z3_unknown = True
            # z3 answered `unknown` (incomplete on div/mod queries, and not reproducibly so):
            # the outcome of an external incomplete prover, not of the call under test
            self.probes.hit("retry_skipped_solver_unknown")
        elif s3[0] == "exc" and ref_sig[0] == "exc":
            # both raise: same outcome as far as the property goes (the class may
            # legitimately differ when z3 answers `unknown` on a hard query)
            self.probes.hit("retry_same" if s3 == ref_sig else "retry_exc_class_differs")
        elif s3 != ref_sig:
            self.violate(
                "C07", "retry-after-fault-differs",
                f"{name}: fault-free outcome {ref_sig[0]} {(type(ref[1]).__name__ + ': ' + str(ref[1])[:160]) if ref[0]=='exc' else ''} "
                f"but after an injected {kind} the same call gives {s3[0]} "
                f"{s3[1] if s3[0]=='exc' else ''}", name, {"fault": kind[:2]},
            )
        else:
            self.probes.hit("retry_same")
        return out3

    def apply_query(self, rec):
        """C07: queries are pure too.  Runs a bundle of read-only API calls (pattern search,
        navigation, forwarding of remembered cursors, printing) on one procedure, optionally with a
        crash point inside, then re-checks every procedure and cursor of the session."""
        pid = rec["on"]
        p = self.procs[pid]
        kind = rec.get("kind", "find")

        found = []

        def q():
            out = []
            del found[:]
            if kind == "find":
                for pat in ("for _ in _: _", "_ = _", "_ += _", "if _: _", "_: _"):
                    try:
                        cs = p.find(pat, many=True)
                        out.append(len(cs))
                        found.extend(cs[:3])
                    except Exception as e:  # SchedulingError: no match
                        out.append(type(e).__name__)
            elif kind == "nav":
                for c in list(p.body())[:6]:
                    for f in ("next", "prev", "parent", "before", "after"):
                        try:
                            r = getattr(c, f)()
                            out.append(type(r).__name__)
                        except Exception as e:
                            out.append(type(e).__name__)
                    try:
                        blk = c.as_block().expand()
                        out.append(len(blk))
                    except Exception as e:
                        out.append(type(e).__name__)
            elif kind == "forward":
                for c, _snap in list(self.cursors)[:40]:
                    try:
                        out.append(type(p.forward(c)).__name__)
                    except Exception as e:
                        out.append(type(e).__name__)
            else:  # print
                out.append(stable_hash(self._safe_str(p)))
                out.append([str(a.name()) for a in p.args()])
                try:
                    out.append(p.is_instr())
                except Exception as e:
                    out.append(type(e).__name__)
            return out

        fault = rec.get("fault")
        ref, n = self.crash.run(q)
        if ref[0] == "exc" and not isinstance(ref[1], Exception):
            raise ref[1]
        if self.checks.get("pure"):
            self.remember_cursors(list(found))  # snapshots are taken outside any injected run
        self.log.log("query", on=pid, kind=kind, o=ref[0], h=stable_hash(json_path(ref[1])) if ref[0] == "ret" else type(ref[1]).__name__)
        st = self.ops.setdefault("query", [0, 0])
        st[0 if ref[0] == "ret" else 1] += 1
        if fault:
            k = 1 + int(fault["u"] * n) % max(1, n)
            self.faults["F3_planned"] += 1
            self.crash.run(q, k=k, exc=make_crash_exc("interrupt" if fault["kind"] == "F3i" else "crash", f"query@{k}"))
            if self.crash.fired:
                self.faults["F3_fired"] += 1
            self.log.log("fault", f="query-crash", k=k, fired=self.crash.fired)
        if self.checks.get("pure"):
            self.check_pure("after", "query:" + kind)

    def apply_compile(self, rec):
        pid = rec["on"]
        p = self.procs[pid]

        def comp():
            return p.c_code_str()

        def sig(o):
            return ("exc", type(o[1]).__name__) if o[0] == "exc" else ("ret", o[1])

        fault = rec.get("fault")
        if fault and fault.get("first"):
            # the fault hits the FIRST execution (no fault-free reference run before it, which would
            # already have filled every lazily initialised table): crash index from the size of the
            # previous compilation of this session, then the user's retry, then the same compilation
            # once more after exo's module-level memo tables were emptied - the clean-state answer
            from .state import restore_module_globals

            n_est = max(200, int(getattr(self, "last_compile_n", 6000)))
            k = 1 + int(fault["u"] * n_est)
            self.faults["F3_planned"] += 1
            out2, _ = self.crash.run(comp, k=k, exc=make_crash_exc("interrupt" if fault["kind"] == "F3i" else "crash", f"first-compile@{k}"))
            if self.crash.fired:
                self.faults["compile_crash"] += 1
            first_at = self.crash.fired_at
            self.log.log("fault", f="first-compile-crash", k=k, fired=self.crash.fired, at=self.crash.fired_at)
            try:
                out3 = ("ret", comp())
            except Exception as e:
                out3 = ("exc", e)
            restore_module_globals()
            self.cache_seen = {}  # the analysis caches were emptied on purpose: their snapshots are void
            out4, n4 = self.crash.run(comp)
            self.last_compile_n = n4
            if out4[0] == "exc" and not isinstance(out4[1], Exception):
                raise out4[1]
            self.log.log("compile", on=pid, o=out4[0], h=stable_hash(out4[1]) if out4[0] == "ret" else type(out4[1]).__name__)
            st = self.ops.setdefault("compile", [0, 0])
            st[0 if out4[0] == "ret" else 1] += 1
            if sig(out3) != sig(out4) and not (sig(out3)[0] == "exc" and sig(out4)[0] == "exc"):
                self.violate(
                    "C07", "compile-after-fault-differs",
                    f"after a first compilation interrupted at {first_at} the procedure compiles to {sig(out3)[0]}, "
                    f"but to something else once exo's module-level tables are emptied: state left behind by the failed call",
                    "compile", {"at": "first", "diff": classify_text_diff(out3[1], out4[1]) if (out3[0] == "ret" and out4[0] == "ret") else "outcome"},
                )
            else:
                self.probes.hit("compile_first_fault_same")
            if self.checks.get("pure"):
                self.check_pure("after", "compile")
            return
        ref, n = self.crash.run(comp)
        self.last_compile_n = n
        if ref[0] == "exc" and not isinstance(ref[1], Exception):
            raise ref[1]
        self.log.log("compile", on=pid, o=ref[0], h=stable_hash(ref[1]) if ref[0] == "ret" else type(ref[1]).__name__)
        st = self.ops.setdefault("compile", [0, 0])
        st[0 if ref[0] == "ret" else 1] += 1
        if ref[0] == "exc" and self.checks.get("valid"):
            # C04 item 3: documented backend diagnostics only
            if isinstance(ref[1], (KeyError, AttributeError, IndexError, AssertionError, NameError)):
                self.probes.hit("compile_internal_error_" + type(ref[1]).__name__)
        if fault:
            k = 1 + int(fault["u"] * n) % max(1, n)
            tgt = self.crash.pick_stratified(fault["u"]) if fault.get("strat") else None
            out2, _ = self.crash.run(comp, k=None if tgt else k, target=tgt,
                                     exc=make_crash_exc("interrupt" if fault["kind"] == "F3i" else "crash", f"compile@{tgt or k}"))
            if self.crash.fired:
                self.faults["compile_crash"] += 1
            self.log.log("fault", f="compile-crash", k=k, fired=self.crash.fired, at=self.crash.fired_at)
            try:
                out3 = ("ret", comp())
            except Exception as e:
                out3 = ("exc", e)
            if sig(out3)[0] == "exc" and sig(ref)[0] == "exc":
                self.probes.hit("compile_retry_same")
            elif sig(out3) != sig(ref):
                at = (self.crash.fired_at or ["?"])[0]
                self.violate(
                    "C07", "compile-after-fault-differs",
                    f"the same procedure compiles differently after a crash injected at {self.crash.fired_at}: "
                    f"{sig(ref)[0]} then {sig(out3)[0]} {str(out3[1])[:160] if out3[0]=='exc' else ''}",
                    "compile", {"at": at, "diff": classify_text_diff(ref[1], out3[1]) if (ref[0] == "ret" and out3[0] == "ret") else "outcome"},
                )
            else:
                self.probes.hit("compile_retry_same")
        if self.checks.get("pure"):
            self.check_pure("after", "compile")

    def run(self):
        self.setup()
        for rec in self.data["ops"]:
            self.apply(rec)
            if self.viol is not None and self.data.get("stop_at_first", True):
                break
        if self.checks.get("pure") and self.viol is None:
            self.check_pure("at end of", "session", with_str=True)
        self.crash.uninstall()
        return self.result()

    def result(self):
        return {
            "violation": self.viol,
            # "~u": z3 answered `unknown` somewhere in this run.  Whether it does depends on z3-internal state
            # that survives a fresh context (seen: the same query decided in one process and `unknown` in
            # another), so such runs are not required to reproduce digest-for-digest (self-test skips them)
            "digest": self.log.digest() + ("~u" if getattr(self, "z3_unknown", False) else ""),
            "n_events": self.log.n,
            "probes": dict(self.probes),
            "faults": self.faults,
            "ops": self.ops,
            "n_compared": self.n_compared,
            "known_hits": self.known_hits,
            "other_props": self.other_props,
            "all_violations": self.all_viols,
            "events": self.log.events if self.log.keep else None,
        }


# --------------------------------------------------------------------------- #
# generation: run a session online, proposing each op from the current state


def generate_and_run(seed: int, cfg: dict, log_keep=False) -> dict:
    """Generates the program and the op list from `seed` while executing it.
    Returns the Session result plus the recorded session data (replayable)."""
    r_prog = substream(seed, "prog")
    r_ops = substream(seed, "ops")
    r_fault = substream(seed, "faults")
    gen_cfg = {"configs": cfg.get("configs", False), "par": cfg.get("par", False), "calls": cfg.get("calls", True)}
    stratum = cfg.get("stratum")
    if stratum:
        gen_cfg["motifs"] = [stratum[0]]
        if stratum[0] in ("config", "cfg_rwo", "cfg_callee", "cfg_cond"):
            gen_cfg["configs"] = True
    data = {
        "engine": "session",
        "gen_cfg": gen_cfg,
        "checks": cfg.get("checks", {}),
        "inputs_seed": seed,
        "ops": [],
        "stop_at_first": True,
        "props": cfg.get("props"),
        "known": cfg.get("known") or [],
    }
    ops_allowed = cfg.get("ops") or sorted(PROPOSERS)
    weights = cfg.get("weights") or {}
    src = None
    for attempt in range(8):
        s, picked = gen_prog.gen_program(r_prog, gen_cfg)
        data["src"] = s
        S = Session(data, log_keep=log_keep)
        try:
            S.setup()
            src = s
            break
        except Exception as e:
            S.probes.hit("program_rejected")
            continue
    if src is None:
        return {"violation": None, "digest": "rejected", "n_events": 0, "probes": {"program_rejected": 8}, "faults": {}, "ops": {}, "n_compared": 0, "data": None}
    S.log.log("prog", h=stable_hash(src))
    from exo.core.prelude import Sym as _Sym

    _sym0 = _Sym._unq_count
    n_ops = r_ops.randint(cfg.get("min_ops", 4), cfg.get("max_ops", 12))
    fault_rate = cfg.get("fault_rate", 0.0)
    fault_kinds = cfg.get("fault_kinds", ["F3c", "F3i", "F1", "F2"])
    live = ["p"]
    k = 0
    wl = [weights.get(o, 1.0) for o in ops_allowed]
    affinity_rate = cfg.get("affinity_rate", 0.4)
    follow_rate = cfg.get("follow_rate", 0.35)
    last_ok = None
    affine = sorted({o for m in picked for o in gen_prog.G.AFFINITY.get(m, ()) if o in ops_allowed and o in PROPOSERS})

    def run_rec(rec):
        data["ops"].append(rec)
        S.apply(rec)
        return rec["out"] in S.procs

    # macro (C10/C11): derive a variant of a callee with a configuration rewrite, then swap it in with call_eqv
    if r_ops.random() < cfg.get("call_eqv_macro", 0.0):
        feat = Feat(S.procs["p"]._loopir_proc)
        calls = [(pth, st) for pth, st in feat.get("Call") if any(S.procs[q]._loopir_proc is st.f for q in gen_prog.LIB_PROCS if q in S.procs)]
        if calls:
            pth, st = r_ops.choice(calls)
            callee = [q for q in gen_prog.LIB_PROCS if q in S.procs and S.procs[q]._loopir_proc is st.f][0]
            cur = callee
            for _ in range(r_ops.randint(1, 2)):
                nm = r_ops.choice(["write_config", "delete_config", "bind_config", "write_config", "simplify", "delete_config"])
                try:
                    pr = PROPOSERS[nm](r_ops, S, cur, Feat(S.procs[cur]._loopir_proc))
                except Exception:
                    pr = None
                if not pr:
                    continue
                k += 1
                if run_rec({"op": nm, "on": cur, "out": f"r{k}", "args": pr[0], "kw": pr[1], "stale": False}):
                    cur = f"r{k}"
                if S.viol and not cfg.get("survey"):
                    break
            if cur != callee and not (S.viol and not cfg.get("survey")):
                k += 1
                if run_rec({"op": "call_eqv", "on": "p", "out": f"r{k}", "args": [A_node("p", pth), A_proc(cur)], "kw": {}, "stale": False}):
                    live.append(f"r{k}")

    n_first = 3 if stratum and stratum[1] in PROPOSERS and stratum[1] in ops_allowed else 0
    for i in range(n_ops + n_first):
        if S.viol and not cfg.get("survey"):
            break
        # stratified session: the stratum's primitive is applied to the pristine program
        # with three independent argument draws before the history continues at random
        forced_op = stratum[1] if i < n_first else None
        # choose target: mostly the newest descendant of p, sometimes older ones or a library proc
        u = r_ops.random()
        if forced_op:
            pid = "p"
        elif u < 0.70:
            pid = live[-1]
        elif u < 0.88:
            pid = r_ops.choice(live)
        else:
            pid = r_ops.choice([q for q in S.procs if q in gen_prog.LIB_PROCS[:4]] or live)
        if not forced_op and r_ops.random() < cfg.get("query_rate", 0.0):
            rec = {"op": "query", "on": pid, "out": None, "args": [], "kw": {}, "kind": r_ops.choice(["find", "nav", "forward", "print"])}
            if r_fault.random() < fault_rate:
                rec["fault"] = {"kind": r_fault.choice(["F3c", "F3i"]), "u": r_fault.random()}
            data["ops"].append(rec)
            S.apply(rec)
            continue
        if not forced_op and r_ops.random() < cfg.get("compile_rate", 0.0):
            rec = {"op": "compile", "on": pid, "out": None, "args": [], "kw": {}}
            if r_fault.random() < max(fault_rate, cfg.get("compile_fault_rate", 0.0)):
                rec["fault"] = {"kind": r_fault.choice(["F3c", "F3i"]), "u": r_fault.random(), "strat": r_fault.random() < 0.5,
                                "first": r_fault.random() < 0.4}
            data["ops"].append(rec)
            S.apply(rec)
            if S.viol and not cfg.get("survey"):
                break
            continue
        feat = Feat(S.procs[pid]._loopir_proc)
        stale = False
        src_pid = pid
        # stale cursor: build the cursor on an ancestor, let the op forward it implicitly
        if not forced_op and S.parent.get(pid) is not None and r_ops.random() < cfg.get("stale_rate", 0.15):
            anc = S.parent[pid]
            if r_ops.random() < 0.4 and S.parent.get(anc) is not None:
                anc = S.parent[anc]
            feat = Feat(S.procs[anc]._loopir_proc)
            src_pid = anc
            stale = True
        prop = None
        for _try in range(4):
            # part of the ops are drawn from the primitives whose side conditions the
            # program's motifs exercise (gen_prog.G.AFFINITY); a primitive without a
            # target in this procedure is re-drawn a few times
            fol = [o for o in FOLLOW.get(last_ok, ()) if o in ops_allowed] if _try == 0 else []
            if forced_op:
                name = forced_op
            elif fol and pid == live[-1] and r_ops.random() < follow_rate:
                name = r_ops.choice(fol)
            elif affine and r_ops.random() < affinity_rate:
                name = r_ops.choice(affine)
            else:
                name = r_ops.choices(ops_allowed, wl)[0]
            try:
                prop = PROPOSERS[name](r_ops, S, src_pid, feat)
            except Exception as e:
                S.probes.hit("proposer_error_" + name)
                prop = None
            if prop is not None:
                break
            S.probes.hit("no_candidate")
        if prop is None:
            continue
        args, kw = prop
        k += 1
        rec = {"op": name, "on": pid, "out": f"r{k}", "args": args, "kw": kw, "stale": stale}
        if r_fault.random() < fault_rate:
            rec["fault"] = {"kind": r_fault.choice(fault_kinds), "u": r_fault.random(), "strat": r_fault.random() < 0.5}
        data["ops"].append(rec)
        n_before = len(S.procs)
        S.apply(rec)
        if rec["out"] in S.procs and S.root_pid(rec["out"]) == "p":
            live.append(rec["out"])
            last_ok = name
        if S.viol and not cfg.get("survey"):
            break
    # optional closing idiom (C18 scripts): inline what is left, resolve windows, normalise index
    # expressions - the steps after which real schedules are printed and compiled
    for nm in cfg.get("closing_ops", ()):
        if S.viol and not cfg.get("survey"):
            break
        for _rep in range(2 if nm != "simplify" else 1):
            pid = live[-1]
            try:
                pr = PROPOSERS[nm](r_ops, S, pid, Feat(S.procs[pid]._loopir_proc))
            except Exception:
                pr = None
            if not pr:
                break
            k += 1
            if run_rec({"op": nm, "on": pid, "out": f"r{k}", "args": pr[0], "kw": pr[1], "stale": False}) and S.root_pid(f"r{k}") == "p":
                live.append(f"r{k}")
    if S.checks.get("pure") and S.viol is None:
        S.check_pure("at end of", "session", with_str=True)
    S.crash.uninstall()
    res = S.result()
    data["n_syms"] = _Sym._unq_count - _sym0  # symbols created by the op list (C18 places id boundaries inside it)
    res["data"] = data
    res["motifs"] = picked
    return res


def replay(data: dict):
    S = Session(data, log_keep=True)
    return S.run()

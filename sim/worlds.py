"""C18: the same scripted session replayed in many worlds.

A world = (PYTHONHASHSEED [fresh interpreter], id-hash salt, Sym-counter
offset, prefix history, definition-order variation).  The transcript of a
session - outcome kind of every scheduling call, text of every returned
procedure, final C and header text - must be byte-identical in every world.

`python -m sim.worlds --jobs <file> --out <file>` runs a batch of
(session, world) jobs in THIS interpreter (whose PYTHONHASHSEED the caller
chose), one forked child per job, and writes the transcripts.
"""
from __future__ import annotations

import json
import os
import sys

from .kernel import stable_hash, substream

PREFIX_KINDS = ["none", "sessions", "unrelated_defs", "failed_ops", "crashed_compile", "same_named_config", "many_syms"]

UNRELATED_SRC = '''
@config
class CfgZ:
    z: f32


@proc
def unrelated_a(k: size, u: f32[k], v: f32[k]):
    for t in seq(0, k):
        v[t] = u[t] * CfgZ.z


@proc
def unrelated_b(k: size, u: f32[k]):
    tmp: f32[k] @ DRAM_STACK
    for t in seq(0, k):
        tmp[t] = u[t]
    for t in seq(0, k):
        u[t] = tmp[t] + 1.0
'''

SAME_NAMED_CONFIG_SRC = '''
@config
class CfgA:
    k: bool
    flag: index


@proc
def uses_other_cfga(k: size, u: f32[k]):
    for t in seq(0, k):
        if t < CfgA.flag:
            u[t] = 0.0
    if CfgA.k:
        u[0] = 1.0
'''


def transcript_of(data: dict, world: dict) -> dict:
    """Runs in a forked child.  Installs the world, runs the prefix, replays the
    script, returns the transcript."""
    from . import session as SS
    from .progs import define
    from .seams import CrashSeam, install_hash_salt, set_sym_offset, make_crash_exc

    if world.get("salt") is not None:
        install_hash_salt(world["salt"])
    if world.get("sym_offset"):
        set_sym_offset(world["sym_offset"])
    r = substream(world.get("seed", 0), "world-prefix")
    pk = world.get("prefix", "none")
    notes = []
    try:
        if pk == "sessions":
            for i in range(world.get("n_prefix", 2)):
                SS.generate_and_run(world["seed"] * 7 + i, {"configs": i % 2 == 0, "checks": {}, "fault_rate": 0.0, "max_ops": 6, "compile_rate": 0.2})
        elif pk == "unrelated_defs":
            ns = define(UNRELATED_SRC, tag="unrel")
            ns["unrelated_b"].c_code_str()
        elif pk == "failed_ops":
            SS.generate_and_run(world["seed"] * 11 + 3, {"checks": {}, "fault_rate": 0.6, "fault_kinds": ["F2", "F3c", "F3i"], "max_ops": 8})
        elif pk == "crashed_compile":
            # an earlier compilation in the same process dies part-way (Ctrl-C, MemoryError)
            src = (
                "@proc\ndef earlier(k: size, u: f32[k]):\n    t1: f32[4] @ SimStatic\n    t2: f32[4] @ SimStatic\n"
                "    for q in seq(0, 4):\n        t1[q] = 1.0\n        t2[q] = t1[q]\n    u[0] = t2[0]\n"
            )
            S0 = SS.Session({"engine": "session", "src": src, "ops": [], "checks": {}, "props": []})
            S0.setup()
            cs = CrashSeam()
            pr = S0.procs["earlier"]
            _, n = cs.run(lambda: pr.c_code_str())
            k = 1 + r.randrange(max(1, n))
            cs.run(lambda: pr.c_code_str(), k=k, exc=make_crash_exc(r.choice(["crash", "interrupt"]), "prefix"))
            cs.uninstall()
            notes.append(f"crashed earlier compile at event {k}/{n}")
        elif pk == "same_named_config":
            define(SAME_NAMED_CONFIG_SRC, tag="othercfg")
        elif pk == "many_syms":
            from exo.core.prelude import Sym

            for i in range(r.randint(100, 3000)):
                Sym("junk")
    except Exception as e:
        notes.append(f"prefix raised {type(e).__name__}: {str(e)[:120]}")

    if data.get("directed"):
        # directed process histories (sim/directed.py): subject script + discarded calls on
        # procedures that share Syms / statement objects with the subject
        from . import directed

        out = directed.transcript(data, world)
        out["notes"] = notes + out["notes"]
        return out
    sdata = dict(data)
    sdata["checks"] = {}
    sdata["props"] = []
    S = SS.Session(sdata, log_keep=True)
    tr = []
    try:
        S.setup()
    except Exception as e:
        return {"transcript": [["setup", "exc", type(e).__name__, str(e)[:200]]], "digest": stable_hash("setup-exc"), "notes": notes,
                "z3_unknown": False, "final": None}
    z3_unknown = False
    if world.get("sym_align_u") is not None and sdata.get("n_syms"):
        # targeted: the power-of-ten boundary of the symbol counter falls at a seeded position INSIDE
        # the symbols this op list creates (an id with one more digit sorts differently as text)
        world = dict(world, sym_align=1 + int(world["sym_align_u"] * int(sdata["n_syms"])))
    if world.get("sym_align"):
        # place the symbol counter a few ids below a power of ten, so that symbols created by the
        # following operations straddle it (orderings by printed id flip there)
        from exo.core.prelude import Sym

        cur = Sym._unq_count
        k = len(str(cur))
        Sym._unq_count = max(cur, 10 ** k - int(world["sym_align"]))
    noise = substream(world.get("seed", 0), "world-noise") if world.get("noise") else None
    for rec in sdata["ops"]:
        if noise is not None:
            _discarded_calls(S, noise, notes)
            _early_attempts(S, noise, rec)
        n0 = len(S.log.events)
        S.apply(rec)
        for ev in S.log.events[n0:]:
            if ev["k"] in ("op", "compile"):
                tr.append([ev.get("op", "compile"), ev["o"], ev["h"] if ev["o"] != "exc" else "exc"])
                if ev["o"] == "exc" and ev["h"] == "TypeError":
                    z3_unknown = True  # TypeError is how SMTSolver reports `unknown`
    # final compile of every descendant of p, newest last
    from exo.API import compile_procs_to_strings

    final = None
    pids = [k for k in S.procs if (k == "p" or k.startswith("r")) and S.root_pid(k) == "p"]
    try:
        c, h = compile_procs_to_strings([S.procs[pids[-1]]], "world.h")
        final = {"c": c, "h": h}
        tr.append(["final-compile", "ret", stable_hash(c, h)])
    except Exception as e:
        tr.append(["final-compile", "exc", "exc"])
    for k in pids[-2:]:
        tr.append(["str", k, stable_hash(str(S.procs[k]))])
    return {"transcript": tr, "digest": stable_hash(json.dumps(tr)), "notes": notes, "z3_unknown": z3_unknown, "final": final}


NOISE_OPS = ["eliminate_dead_code", "compile", "compile", "remove_loop", "simplify", "fuse", "reorder_loops", "stage_mem", "fission",
             "delete_pass", "lift_scope", "divide_loop", "inline", "resize_dim", "merge_writes", "unroll_buffer"]


def _discarded_calls(S, r, notes):
    """World dimension "noise": between two steps of the script, other scheduling calls and
    compilations are made on the live procedures and their results thrown away (most are rejected).
    Scheduling is pure, so the script's transcript must not notice - this is the history of an
    interactive session in which the user tried things that did not work out."""
    from . import session as SS
    import exo.API_scheduling as AS

    for _ in range(r.choice([0, 1, 1, 2])):
        pids = [k for k in S.procs if k == "p" or k.startswith("r")]
        if not pids:
            return
        pid = r.choice(pids[-3:])
        name = r.choice(NOISE_OPS)
        try:
            if name == "compile":
                S.procs[pid].c_code_str()
                continue
            pr = SS.PROPOSERS[name](r, S, pid, SS.Feat(S.procs[pid]._loopir_proc))
            if not pr:
                continue
            args = S.mat(pr[0])
            getattr(AS, name)(S.procs[pid], *[list(a) if isinstance(a, list) else a for a in args], **pr[1])
        except Exception:
            pass


def _early_attempts(S, r, rec):
    """Noise, second kind: the script's next operation is first attempted on the ANCESTORS of its
    target, at the same location (the user tried it one or two steps too early, where it is usually
    rejected), and the result is thrown away."""
    import copy

    import exo.API_scheduling as AS

    if rec.get("op") in ("compile", "query") or r.random() < 0.4:
        return
    pid = rec.get("on")
    anc = S.parent.get(pid)
    for _ in range(2):
        if anc is None or anc not in S.procs:
            return
        try:
            spec = json.loads(json.dumps(rec["args"]).replace(f'"p": "{pid}"', f'"p": "{anc}"'))
            args = S.mat(spec)
            getattr(AS, rec["op"])(S.procs[anc], *[list(a) if isinstance(a, list) else a for a in args], **(rec.get("kw") or {}))
        except BaseException as e:  # noqa: BLE001 - discarded
            if isinstance(e, (KeyboardInterrupt, SystemExit)):
                raise
        anc = S.parent.get(anc)


def record_session(seed: int, cfg: dict) -> dict:
    """Generate a fault-free scripted session (program + op list)."""
    from . import session as SS

    c = dict(cfg)
    c.update({"checks": {}, "fault_rate": 0.0, "stale_rate": 0.0, "compile_rate": 0.1, "props": []})
    res = SS.generate_and_run(seed, c)
    return res.get("data")


def _job(arg):
    if arg.get("kind") == "harvest":
        from . import harvest

        s = harvest.run_world(arg["hv"])
        return {
            "digest": s["digest"], "failed_tests": s["failed_tests"], "n_tests": len(s["tests"]), "calls": s["calls"],
            "transcript": [], "notes": [], "z3_unknown": False,
        }
    return transcript_of(arg["data"], dict(arg["world"]))


def batch_main(argv):
    """Entry used by the check: runs jobs in this interpreter."""
    import argparse

    ap = argparse.ArgumentParser()
    ap.add_argument("--jobs")
    ap.add_argument("--out")
    ap.add_argument("--workers", type=int, default=4)
    a = ap.parse_args(argv)
    from checks import common

    common.preload()
    common.warmup(2)
    from .runner import run_many

    jobs = json.load(open(a.jobs))
    recs = run_many(_job, jobs, workers=a.workers, wall=int(os.environ.get('VERIF_WORLD_WALL', '400')))
    out = []
    for r in recs:
        o = {"id": r["arg"]["id"], "status": r["status"]}
        if r["status"] == "ok":
            o.update(r["result"])
            o.pop("final", None) if not r["arg"].get("keep_final") else None
        else:
            o["error"] = r.get("error")
        out.append(o)
    json.dump({"hashseed": os.environ.get("PYTHONHASHSEED"), "results": out}, open(a.out, "w"))


def run_in_interpreter(jobs, hashseed, workers=2, timeout=1800):
    """Run jobs in a fresh interpreter with the given PYTHONHASHSEED."""
    import subprocess
    import tempfile

    here = os.path.dirname(os.path.dirname(os.path.abspath(__file__)))
    d = tempfile.mkdtemp(prefix="worlds-", dir=os.path.join(here, "scratch") if os.path.isdir(os.path.join(here, "scratch")) else None)
    jf, of = os.path.join(d, "jobs.json"), os.path.join(d, "out.json")
    json.dump(jobs, open(jf, "w"))
    env = dict(os.environ)
    env["PYTHONHASHSEED"] = str(hashseed)
    env["EXO_VERIF_SIM"] = "1"
    env["PYTHONPATH"] = os.pathsep.join([here, os.path.join(os.environ.get("EXO_REPO", "/repo"), "src")])
    try:
        p = subprocess.run(
            [sys.executable, "-m", "sim.worlds", "--jobs", jf, "--out", of, "--workers", str(workers)],
            cwd=here, env=env, capture_output=True, text=True, timeout=timeout,
        )
        if not os.path.exists(of):
            return None, (p.stdout + p.stderr)[-1500:]
        return json.load(open(of)), ""
    except subprocess.TimeoutExpired:
        return None, "timeout"
    finally:
        import shutil

        shutil.rmtree(d, ignore_errors=True)


def replay(data: dict):
    """Replay file: {"data": session, "world_a", "world_b", "hashseed_a",
    "hashseed_b"}: both worlds are re-run in fresh interpreters."""
    ja = [{"id": "a", "data": data["data"], "world": data["world_a"], "keep_final": True}]
    jb = [{"id": "b", "data": data["data"], "world": data["world_b"], "keep_final": True}]
    ra, ea = run_in_interpreter(ja, data.get("hashseed_a", 0), workers=1)
    rb, eb = run_in_interpreter(jb, data.get("hashseed_b", 0), workers=1)
    if not ra or not rb or ra["results"][0]["status"] != "ok" or rb["results"][0]["status"] != "ok":
        return {"violation": None, "error": f"world run failed {ea} {eb}"}
    a, b = ra["results"][0], rb["results"][0]
    if a["digest"] != b["digest"]:
        return {"violation": {"sig": data.get("signature", "transcript-differs"), "detail": first_diff(a, b)}, "events": None}
    return {"violation": None, "events": None}


def first_diff(a, b):
    for i, (x, y) in enumerate(zip(a["transcript"], b["transcript"])):
        if x != y:
            extra = ""
            if x[0] == "final-compile" and a.get("final") and b.get("final"):
                la, lb = a["final"]["c"].splitlines(), b["final"]["c"].splitlines()
                for j, (p, q) in enumerate(zip(la, lb)):
                    if p != q:
                        extra = f" first differing C line {j}: {p!r} vs {q!r}"
                        break
            return f"step {i}: {x} vs {y}{extra}; notes {a.get('notes')} / {b.get('notes')}"
    return f"length {len(a['transcript'])} vs {len(b['transcript'])}"


if __name__ == "__main__":
    batch_main(sys.argv[1:])

"""Directed process histories for C18 (worlds engine, `data["directed"]`).

The generated sessions of the worlds engine rarely contain the two shapes that a per-process
memo in exo would need in order to show: (a) two procedures that SHARE argument Syms or statement
objects but differ in context (add_assertion, partial_eval, cut_loop keep Syms / sub-trees), and
(b) an earlier call on one of them whose result is thrown away (compiled, or rejected by the
solver) before the other is scheduled and compiled.  This module generates exactly those shapes
from a handful of parametrised templates.

A directed run = subject script (derive Q from P, clean Q up, print and compile Q and P) plus a
HISTORY: a seeded list of (slot, action) pairs, each action a scheduling call or a compilation on
P, Q or a sibling of Q whose result is discarded.  Scheduling is pure and compilation is a
function of the procedure, so the subject's transcript must be byte-identical with and without
the history.  The baseline world has the empty history; the history is part of the world, so a
replay file carries it explicitly.
"""
from __future__ import annotations

import json

from .kernel import stable_hash, substream

# slot 0: before Q is derived; 1: after the derivation, before clean-up; 2: after clean-up, before
# the final print/compile
ACTIONS = ["compile_P", "compile_sibling", "compile_Q", "dce_P", "dce_sibling", "simplify_P", "reject_P", "compile_cut_P"]

TEMPLATES = ["divsign_assert", "divsign_peval", "cut_if", "assert_if", "mod_assert", "two_arg_div"]


def generate(seed: int) -> dict:
    """The subject: template + parameters (a pure function of the seed)."""
    r = substream(seed, "directed")
    t = r.choice(TEMPLATES)
    k = r.choice([2, 4, 8])
    c = k * r.choice([1, 2, 3])
    return {"tmpl": t, "k": k, "c": c, "m": r.choice([2, 4, 6]), "val": r.choice(["0.0", "1.0"]), "seed": seed}


def gen_history(r, n_max=4):
    n = r.choice([1, 1, 2, 3, n_max])
    return [[r.choice([0, 0, 1, 1, 2]), r.choice(ACTIONS)] for _ in range(n)]


def source(d: dict) -> str:
    t, k, c, m, v = d["tmpl"], d["k"], d["c"], d["m"], d["val"]
    if t == "divsign_assert":
        return (f"@proc\ndef p(n: size, x: f32[n]):\n    assert n % {k} == 0\n    for i in seq(0, n):\n"
                f"        if i < (n - {c}) / {k}:\n            x[i] = {v}\n")
    if t == "divsign_peval":
        return (f"@proc\ndef p(n: size, m: size, x: f32[n]):\n    assert m <= n\n    for i in seq(0, n):\n"
                f"        if i < (n - m) / {k}:\n            x[i] = {v}\n")
    if t == "cut_if":
        return (f"@proc\ndef p(n: size, x: f32[n]):\n    assert n >= {c}\n    for i in seq(0, n):\n"
                f"        if i < {c}:\n            x[i] = {v}\n        else:\n            x[i] = 2.0\n")
    if t == "assert_if":
        return (f"@proc\ndef p(n: size, x: f32[n]):\n    for i in seq(0, n):\n"
                f"        if n > {c}:\n            x[i] = {v}\n        else:\n            x[i] = 2.0\n")
    if t == "mod_assert":
        return (f"@proc\ndef p(n: size, x: f32[n]):\n    assert n >= 1\n    for i in seq(0, n / {k}):\n"
                f"        for j in seq(0, {k}):\n            if {k} * i + j < n - {c}:\n                x[{k} * i + j] = {v}\n")
    if t == "two_arg_div":
        return (f"@proc\ndef p(n: size, m: size, x: f32[n]):\n    assert n % {k} == 0\n    assert m <= n\n    for i in seq(0, n):\n"
                f"        if i < (n - m) / {k} + (n - {c}) / {k}:\n            x[i] = {v}\n")
    raise ValueError(t)


def _derive(P, d, which="subject"):
    """Q (subject) or a sibling: same argument Syms and/or statement objects as P, other context."""
    import exo.API_scheduling as AS

    t, k, c, m = d["tmpl"], d["k"], d["c"], d["m"]
    sib = which == "sibling"
    if t in ("divsign_assert", "mod_assert"):
        return P.add_assertion(f"n >= {c * 3 if sib else c}")
    if t == "divsign_peval":
        return P.partial_eval(m=(m + 2 if sib else m))
    if t == "two_arg_div":
        return P.add_assertion(f"n >= {c * 2}") if sib else P.partial_eval(m=m).add_assertion(f"n >= {c}")
    if t == "cut_if":
        if sib:
            return P.add_assertion(f"n >= {c * 2}")
        return AS.cut_loop(P, P.find_loop("i"), c)
    if t == "assert_if":
        return P.add_assertion(f"n > {c * 2 if sib else c}")
    raise ValueError(t)


def _dce_all(Q, tr=None, tag="dce"):
    """stdlib-style tolerant clean-up: eliminate_dead_code on every `if`, failures tolerated."""
    import exo.API_scheduling as AS

    for _ in range(4):
        try:
            ifs = Q.find("if _: _", many=True)
        except Exception:
            ifs = []
        progressed = False
        for cur in ifs:
            try:
                Q = AS.eliminate_dead_code(Q, cur)
                progressed = True
                if tr is not None:
                    tr.append([tag, "ret", stable_hash(str(Q))])
                break
            except Exception:
                if tr is not None:
                    tr.append([tag, "exc", "exc"])
        if not progressed:
            break
    return Q


def _act(name, P, Q, d):
    """One discarded call of the history."""
    import exo.API_scheduling as AS

    try:
        if name == "compile_P":
            P.c_code_str()
        elif name == "compile_sibling":
            _derive(P, d, "sibling").c_code_str()
        elif name == "compile_Q":
            (Q if Q is not None else _derive(P, d)).c_code_str()
        elif name == "dce_P":
            _dce_all(P)
        elif name == "dce_sibling":
            _dce_all(_derive(P, d, "sibling"))
        elif name == "simplify_P":
            AS.simplify(P)
        elif name == "reject_P":
            AS.remove_loop(P, P.find_loop("i"))
        elif name == "compile_cut_P":
            AS.cut_loop(P, P.find_loop("i"), 1).c_code_str()
    except Exception:
        pass


def transcript(data: dict, world: dict) -> dict:
    """Runs in a forked child (called from worlds.transcript_of after the world is installed)."""
    import exo.API_scheduling as AS
    from .progs import define

    d = data["directed"]
    hist = world.get("history") or []
    notes = [f"history {json.dumps(hist)}"] if hist else []
    tr = []
    try:
        P = define(source(d), tag="directed")["p"]
    except Exception as e:
        return {"transcript": [["setup", "exc", type(e).__name__, str(e)[:200]]], "digest": stable_hash("setup-exc"), "notes": notes,
                "z3_unknown": False, "final": None}
    Q = None

    def slot(i):
        for s, a in hist:
            if s == i:
                _act(a, P, Q, d)

    slot(0)
    try:
        Q = _derive(P, d)
        tr.append(["derive", "ret", stable_hash(str(Q))])
    except Exception:
        tr.append(["derive", "exc", "exc"])
        Q = P
    slot(1)
    Q = _dce_all(Q, tr)
    try:
        Q = AS.simplify(Q)
        tr.append(["simplify", "ret", stable_hash(str(Q))])
    except Exception:
        tr.append(["simplify", "exc", "exc"])
    slot(2)
    final = None
    from exo.API import compile_procs_to_strings

    try:
        c, h = compile_procs_to_strings([Q], "world.h")
        final = {"c": c, "h": h}
        tr.append(["final-compile", "ret", stable_hash(c, h)])
    except Exception:
        tr.append(["final-compile", "exc", "exc"])
    try:
        tr.append(["compile-P", "ret", stable_hash(P.c_code_str())])
    except Exception:
        tr.append(["compile-P", "exc", "exc"])
    tr.append(["str", "Q", stable_hash(str(Q))])
    tr.append(["str", "P", stable_hash(str(P))])
    return {"transcript": tr, "digest": stable_hash(json.dumps(tr)), "notes": notes, "z3_unknown": False, "final": final}

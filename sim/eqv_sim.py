"""C11: stateful model-based simulation of exo.core.proc_eqv.

Level (a) "direct": histories of new / derive / assert / check / strictest /
repr / forget / gc driven straight at the module with minimal real
LoopIR.proc objects; configuration keys appear for the first time at seeded
points of the history.
Level (b) "api": the same reference model fed by real Procedure objects and real
scheduling operations (see eqv_api_sim.py).

Reference model = the statement read per configuration field: an edge list
(u, v, K); x ~_k y iff x and y are connected using only edges whose K does not
contain k; Unv-connected iff connected using all edges.
"""
from __future__ import annotations

from .kernel import EventLog, Probes, substream, SimCrash
from .seams import CrashSeam, collect, gc_off, make_crash_exc

KEY_POOL = [("CfgA", "x"), ("CfgA", "y"), ("CfgB", "x"), ("CfgB", "flag"), ("CfgC", "s")]


# --------------------------------------------------------------------------- #
# reference model


class EqvModel:
    def __init__(self):
        self.nodes = set()
        self.edges = []  # (u, v, frozenset K, optional)
        self.keys_seen = []  # order of first mention (complete calls only)
        self.keys_maybe = []  # keys mentioned only by crashed calls

    def add_node(self, u):
        self.nodes.add(u)

    def add_edge(self, u, v, K, optional=False):
        K = frozenset(K)
        self.edges.append((u, v, K, optional))
        for k in sorted(K):
            if optional:
                if k not in self.keys_maybe and k not in self.keys_seen:
                    self.keys_maybe.append(k)
            elif k not in self.keys_seen:
                self.keys_seen.append(k)

    def _conn(self, x, y, pred, with_optional):
        if x == y:
            return True
        adj = {}
        for u, v, K, opt in self.edges:
            if opt and not with_optional:
                continue
            if pred(K):
                adj.setdefault(u, []).append(v)
                adj.setdefault(v, []).append(u)
        seen = {x}
        st = [x]
        while st:
            a = st.pop()
            for b in adj.get(a, ()):
                if b == y:
                    return True
                if b not in seen:
                    seen.add(b)
                    st.append(b)
        return False

    def unv(self, x, y, wo):
        return self._conn(x, y, lambda K: True, wo)

    def by_key(self, x, y, k, wo):
        return self._conn(x, y, lambda K: k not in K, wo)

    def strict(self, x, y, wo):
        return self._conn(x, y, lambda K: not K, wo)

    def all_keys(self):
        return list(self.keys_seen) + [k for k in self.keys_maybe if k not in self.keys_seen]

    def check(self, x, y, K, wo):
        K = frozenset(K)
        if not self.unv(x, y, wo):
            return False
        return all(self.by_key(x, y, k, wo) for k in self.all_keys() if k not in K)

    def strictest(self, x, y, wo):
        if not self.unv(x, y, wo):
            return False, frozenset()
        return True, frozenset(k for k in self.all_keys() if not self.by_key(x, y, k, wo))

    def has_optional(self):
        return any(e[3] for e in self.edges)


# --------------------------------------------------------------------------- #
# history generation


def gen_history(seed: int, cfg: dict) -> list:
    rng = substream(seed, "eqv-hist")
    n_ops = rng.randint(cfg.get("min_ops", 6), cfg.get("max_ops", 40))
    n_keys = rng.randint(1, len(KEY_POOL))
    keys = rng.sample(KEY_POOL, n_keys)
    late = rng.random() < 0.5  # mention some keys only late in the history
    fault_rate = cfg.get("fault_rate", 0.0)
    live = []
    nxt = 0
    ops = []
    # name pool deliberately tiny: structurally identical procs must stay distinct
    names = ["p", "q"]

    def some_K(progress):
        avail = keys if not late else keys[: max(1, int(len(keys) * progress + 0.3))]
        r = rng.random()
        if r < 0.35:
            return []
        if r < 0.75:
            return [rng.choice(avail)]
        return rng.sample(avail, rng.randint(1, len(avail)))

    for i in range(n_ops):
        progress = i / max(1, n_ops - 1)
        r = rng.random()
        if len(live) < 2 or r < 0.12:
            ops.append({"op": "new", "id": nxt, "name": rng.choice(names)})
            live.append(nxt)
            nxt += 1
        elif r < 0.40 and len(live) < cfg.get("max_procs", 12):
            op = {"op": "derive", "id": nxt, "parent": rng.choice(live), "K": some_K(progress)}
            if rng.random() < fault_rate:
                op["crash"] = {"k": rng.randint(1, 30), "flavour": rng.choice(["crash", "interrupt"])}
            ops.append(op)
            live.append(nxt)
            nxt += 1
        elif r < 0.50:
            a, b = rng.choice(live), rng.choice(live)
            op = {"op": "assert", "a": a, "b": b, "K": some_K(progress)}
            if rng.random() < fault_rate:
                op["crash"] = {"k": rng.randint(1, 30), "flavour": rng.choice(["crash", "interrupt"])}
            ops.append(op)
        elif r < 0.75:
            a, b = rng.choice(live), rng.choice(live)
            Kq = some_K(1.0) if rng.random() < 0.7 else []
            ops.append({"op": "check", "a": a, "b": b, "K": Kq})
        elif r < 0.88:
            ops.append({"op": "strictest", "a": rng.choice(live), "b": rng.choice(live)})
        elif r < 0.92:
            ops.append({"op": "repr", "a": rng.choice(live)})
        elif r < 0.97 and len(live) > 2:
            v = rng.choice(live)
            live.remove(v)
            ops.append({"op": "forget", "a": v})
        else:
            ops.append({"op": "gc"})
    # closing sweep: query every pair of a few survivors
    sw = live[:]
    rng.shuffle(sw)
    sw = sw[:4]
    for a in sw:
        for b in sw:
            if a < b:
                ops.append({"op": "strictest", "a": a, "b": b})
    return ops


# --------------------------------------------------------------------------- #
# execution against the real module


def _mk_proc(name):
    from exo.core.LoopIR import LoopIR
    from exo.core.prelude import null_srcinfo

    si = null_srcinfo()
    return LoopIR.proc(name, [], [], [LoopIR.Pass(si)], None, si)


def run_history(ops: list, log_keep=False) -> dict:
    """Execute a recorded history.  Returns a dict with 'violation' (or None),
    'digest', probe counters and fault counters."""
    from exo.core import proc_eqv as PE
    from .kernel import Violation

    gc_off()
    # S3 with address reuse: procedure hashes are serial numbers, and the serial of a collected
    # procedure is handed to the next new one (deterministic stand-in for id() reuse)
    from .seams import salt_begin_run

    salt_begin_run(0x51C11, reuse=True)
    log = EventLog(keep=log_keep)
    probes = Probes()
    model = EqvModel()
    real = {}
    crash = CrashSeam(only_files=("core/proc_eqv.py",))
    faults = {"crash_planned": 0, "crash_fired": 0, "forget": 0, "gc": 0}
    viol = None

    def fail(sig, detail, idx, op):
        nonlocal viol
        viol = {
            "prop": "C11",
            "sig": sig,
            "detail": detail,
            "step": idx,
            "op": op,
            "key": {"sig": sig, "op": op["op"], "engine": "eqv-direct"},
        }

    def K_of(op):
        return frozenset(tuple(k) for k in op.get("K", ()))

    for idx, op in enumerate(ops):
        kind = op["op"]
        if kind == "new":
            p = _mk_proc(op["name"])
            PE.decl_new_proc(p)
            real[op["id"]] = p
            model.add_node(op["id"])
            log.log("new", id=op["id"])
        elif kind in ("derive", "assert"):
            if kind == "derive":
                if op["parent"] not in real:
                    continue
                a, K = op["parent"], K_of(op)
                newp = _mk_proc("d")
                fn = lambda: PE.derive_proc(real[a], newp, K)  # noqa: E731
                b = op["id"]
            else:
                if op["a"] not in real or op["b"] not in real:
                    continue
                a, b, K = op["a"], op["b"], K_of(op)
                fn = lambda: PE.assert_eqv_proc(real[a], real[b], K)  # noqa: E731
            cr = op.get("crash")
            if cr:
                faults["crash_planned"] += 1
                out, n = crash.run(fn, k=cr["k"], exc=make_crash_exc(cr["flavour"]))
                if crash.fired:
                    faults["crash_fired"] += 1
                    probes.hit("crash_in_" + kind)
            else:
                out = ("ret", fn())
            if out[0] == "ret":
                if kind == "derive":
                    real[b] = newp
                    model.add_node(b)
                model.add_edge(a, b, K)
                log.log(kind, a=a, b=b, K=sorted(K), ok=True)
            else:
                exc = out[1]
                if not (cr and crash.fired):
                    fail(f"{kind}:unexpected-exception", repr(exc), idx, op)
                    break
                # crashed call: the edge may have been applied to any subset of
                # the universes; for derive the new proc is never handed out
                if kind == "assert":
                    model.add_edge(a, b, K, optional=True)
                else:
                    ghost = ("ghost", op["id"])
                    model.add_node(ghost)
                    model.add_edge(a, ghost, K, optional=True)
                log.log(kind, a=a, b=str(b), K=sorted(K), ok=False)
        elif kind == "check":
            if op["a"] not in real or op["b"] not in real:
                continue
            K = K_of(op)
            got = bool(PE.check_eqv_proc(real[op["a"]], real[op["b"]], K))
            lo = model.check(op["a"], op["b"], K, False)
            hi = model.check(op["a"], op["b"], K, True) if model.has_optional() else lo
            log.log("check", a=op["a"], b=op["b"], K=sorted(K), got=got)
            if got:
                probes.hit("check_true")
                if K:
                    probes.hit("check_true_modK")
            else:
                probes.hit("check_false")
                if model.unv(op["a"], op["b"], False):
                    probes.hit("check_false_but_unv")
            if got and not hi:
                fail("check:over-reports-equivalence", f"K={sorted(K)} model={hi}", idx, op)
                break
            if (not got) and lo:
                fail("check:under-reports-equivalence", f"K={sorted(K)} model={lo}", idx, op)
                break
        elif kind == "strictest":
            if op["a"] not in real or op["b"] not in real:
                continue
            is_eqv, keys = PE.get_strictest_eqv_proc(real[op["a"]], real[op["b"]])
            keys = frozenset(keys)
            lo_e, lo_k = model.strictest(op["a"], op["b"], False)
            if model.has_optional():
                hi_e, hi_k = model.strictest(op["a"], op["b"], True)
            else:
                hi_e, hi_k = lo_e, lo_k
            log.log("strictest", a=op["a"], b=op["b"], eqv=bool(is_eqv), keys=sorted(keys))
            probes.hit("strictest_eqv" if is_eqv else "strictest_not")
            if is_eqv and keys:
                probes.hit("strictest_nonempty_keys")
            if is_eqv and not hi_e:
                fail("strictest:over-reports-equivalence", "different origin reported equivalent", idx, op)
                break
            if (not is_eqv) and lo_e:
                fail("strictest:under-reports-equivalence", "", idx, op)
                break
            if is_eqv:
                # must-have keys: disturbed even with every optional edge applied
                must = hi_k if hi_e else frozenset()
                # may-have keys: disturbed when no optional edge is applied
                may = lo_k if lo_e else frozenset(model.all_keys())
                if not must <= keys:
                    fail(
                        "strictest:missing-key",
                        f"reported {sorted(keys)} but {sorted(must - keys)} were disturbed on every connecting path",
                        idx,
                        op,
                    )
                    break
                if not keys <= may:
                    fail("strictest:spurious-key", f"reported {sorted(keys)} model {sorted(may)}", idx, op)
                    break
            elif keys:
                fail("strictest:keys-without-eqv", str(sorted(keys)), idx, op)
                break
        elif kind == "repr":
            if op["a"] not in real:
                continue
            r = PE.get_repr_proc(real[op["a"]])
            rid = [i for i, p in real.items() if p is r]
            log.log("repr", a=op["a"], r=rid[:1])
            if rid:
                if not model.strict(op["a"], rid[0], True):
                    fail("repr:outside-strict-class", f"repr={rid[0]}", idx, op)
                    break
            else:
                probes.hit("repr_is_forgotten_proc")
        elif kind == "forget":
            if op["a"] in real and len(real) > 2:
                del real[op["a"]]
                faults["forget"] += 1
                collect()
                log.log("forget", a=op["a"])
        elif kind == "gc":
            collect()
            faults["gc"] += 1
            log.log("gc")
    crash.uninstall()
    return {
        "violation": viol,
        "digest": log.digest(),
        "n_events": log.n,
        "probes": dict(probes),
        "faults": faults,
        "n_edges": len(model.edges),
        "n_keys": len(model.all_keys()),
        "events": log.events if log_keep else None,
    }

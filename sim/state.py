"""Explicit reset of exo's process-global state, used between runs that share
one forked child (batching; fork() is a system-wide bottleneck in this sandbox).
Everything a batched engine's behaviour can depend on must be restored here;
the determinism self-test (same run seed in different batches / orders / a
fresh interpreter) is what shows that it is."""
from __future__ import annotations

_base = {}


_SIMPLE = (type(None), bool, int, float, str)


def snapshot_module_globals():
    """Called once right after exo has been imported (before any procedure is defined): remembers,
    for every exo module, the module-level names that hold a simple value (None / bool / number /
    string) or an EMPTY dict / list / set.  reset_exo_globals() puts them back, so that lazily
    created singletons, memo tables and flags - including ones this harness has never heard of -
    do not carry state from one simulated run into the next one of the same child."""
    import sys as _sys

    if "modglobals" in _base:
        return
    snap = {}
    for mname, mod in list(_sys.modules.items()):
        if not (mname == "exo" or mname.startswith("exo.")) or mod is None:
            continue
        d = {}
        for k, v in list(vars(mod).items()):
            if k.startswith("__"):
                continue
            if isinstance(v, _SIMPLE):
                d[k] = ("val", v)
            elif type(v) in (dict, list, set) and len(v) == 0:
                d[k] = ("empty", None)
        snap[mname] = d
    _base["modglobals"] = snap


def restore_module_globals(exclude=("exo.core.proc_eqv",)):
    """Mid-session variant used as an oracle baseline: forget every lazily created module-level
    singleton / memo table of exo (except the equivalence tracker's, which is session state)."""
    _restore_module_globals(exclude)


def _restore_module_globals(exclude=()):
    import sys as _sys

    for mname, d in _base.get("modglobals", {}).items():
        if mname in exclude:
            continue
        mod = _sys.modules.get(mname)
        if mod is None:
            continue
        md = vars(mod)
        for k, (kind, v) in d.items():
            cur = md.get(k, _base)
            if kind == "val":
                if cur is not v and cur != v or type(cur) is not type(v):
                    md[k] = v
            else:
                if type(cur) in (dict, list, set) and len(cur):
                    cur.clear()


def snapshot_base():
    """Called once in the parent after preload."""
    from exo.core.prelude import Sym

    _base["sym"] = Sym._unq_count


def reset_exo_globals():
    from exo.core import proc_eqv as PE
    from exo.core.prelude import Sym
    from exo.rewrite import new_eff as NE

    # brand-new universes (not just cleared tables): whatever else the objects carry
    # - e.g. a memo added inside _UnionFind - must not survive into the next run either
    try:
        PE._UF_Unv = type(PE._UF_Unv)()
        PE._UF_Strict = type(PE._UF_Strict)()
    except Exception:
        PE._UF_Unv.lookup.clear()
        PE._UF_Strict.lookup.clear()
    PE._UF_Unv_key.clear()
    for nm in (
        "_simple_proc_cache",
        "_globenv_proc_cache",
        "_proc_effs_cache",
        "_proc_changeset_cache",
        "_overapprox_proc_cache",
    ):
        getattr(NE, nm).clear()
    if "sym" in _base:
        Sym._unq_count = _base["sym"]
    _restore_module_globals()
    # content-keyed memo tables (functools.cache / lru_cache) inside exo: harmless
    # semantically, but they change how many line events a call executes
    import sys as _sys

    for mname, mod in list(_sys.modules.items()):
        if not (mname == "exo" or mname.startswith("exo.")) or mod is None:
            continue
        for obj in list(vars(mod).values()):
            cc = getattr(obj, "cache_clear", None)
            if callable(cc):
                try:
                    cc()
                except Exception:
                    pass
            if isinstance(obj, type):
                for sub in list(vars(obj).values()):
                    cc = getattr(sub, "cache_clear", None)
                    if callable(cc):
                        try:
                            cc()
                        except Exception:
                            pass
    # fresh z3 context: z3's verdict on hard (div/mod) queries otherwise depends
    # on everything the process asked before
    try:
        import z3

        z3.z3._main_ctx = None
    except Exception:
        pass
    try:
        from exo.core.memory import StaticMemory

        def rec(c):
            if "is_chunk_allocated" in c.__dict__ or c is StaticMemory:
                c.is_chunk_allocated = [False] * len(c.is_chunk_allocated)
            for s in c.__subclasses__():
                rec(s)

        rec(StaticMemory)
        from . import session as _S

        for c in _S._SIMSTATIC:
            c.reg.clear()
    except Exception:
        pass


def memoise_pysmt_factory():
    """exo builds a new pysmt ``Factory`` for every procedure definition and
    every unification; each Factory re-attempts the import of all solver back
    ends that are not installed (msat, cvc4, yices, bdd, picosat, btor), which
    costs ~35 ms per call and dominated the cost of a simulated session.  The
    outcome is a pure function of the installed packages, so it is computed once
    per process and copied afterwards.  No exo line is involved (crash-point
    counts are unaffected) and the solver objects handed to exo are the same."""
    import pysmt.factory as F

    if getattr(F.Factory, "_verif_memo", None) is not None:
        return
    memo = {}
    F.Factory._verif_memo = memo
    o_s, o_q, o_i = F.Factory._get_available_solvers, F.Factory._get_available_qe, F.Factory._get_available_interpolators

    def solvers(self):
        if "s" not in memo:
            o_s(self)
            memo["s"] = (dict(self._all_solvers), dict(self._all_unsat_core_solvers))
        self._all_solvers, self._all_unsat_core_solvers = dict(memo["s"][0]), dict(memo["s"][1])

    def qe(self):
        if "q" not in memo:
            o_q(self)
            memo["q"] = dict(self._all_qelims)
        self._all_qelims = dict(memo["q"])

    def itp(self):
        if "i" not in memo:
            o_i(self)
            memo["i"] = dict(self._all_interpolators)
        self._all_interpolators = dict(memo["i"])

    F.Factory._get_available_solvers = solvers
    F.Factory._get_available_qe = qe
    F.Factory._get_available_interpolators = itp


def fast_inspect_stack():
    """exo calls ``inspect.stack()`` (default context=1: a source-file lookup for
    every frame of the Python stack) each time a procedure is defined or a
    pattern/fragment is parsed, and uses only ``.frame`` / ``.function`` of the
    entries.  Inside the simulator the stack is deep (runner -> session -> op), so
    this was ~20 % of a session.  The exo modules get a proxy of ``inspect`` whose
    ``stack`` defaults to context=0; everything else is forwarded."""
    import inspect as _inspect
    import types

    import exo.frontend.parse_fragment as PF
    import exo.frontend.pattern_match as PM
    import exo.frontend.pyparser as PP
    import exo.rewrite.new_eff as NE

    if isinstance(getattr(PP, "inspect", None), types.SimpleNamespace):
        return

    class _Proxy(types.SimpleNamespace):
        def __getattr__(self, nm):
            return getattr(_inspect, nm)

    import sys as _sys

    def fast_stack(context=0):
        # same entries as inspect.stack(0) seen from the caller, without the
        # per-frame source-file resolution of inspect.getframeinfo
        f = _sys._getframe(1)
        out = []
        while f is not None:
            out.append(_inspect.FrameInfo(f, f.f_code.co_filename, f.f_lineno, f.f_code.co_name, None, None))
            f = f.f_back
        return out

    px = _Proxy(stack=fast_stack)
    for m in (PF, PM, PP, NE):
        if getattr(m, "inspect", None) is _inspect:
            m.inspect = px

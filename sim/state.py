"""Explicit reset of exo's process-global state, used between runs that share
one forked child (batching; fork() is a system-wide bottleneck in this sandbox).
Everything a batched engine's behaviour can depend on must be restored here;
the determinism self-test (same run seed in different batches / orders / a
fresh interpreter) is what shows that it is."""
from __future__ import annotations

_base = {}


def snapshot_base():
    """Called once in the parent after preload."""
    from exo.core.prelude import Sym

    _base["sym"] = Sym._unq_count


def reset_exo_globals():
    from exo.core import proc_eqv as PE
    from exo.core.prelude import Sym
    from exo.rewrite import new_eff as NE

    PE._UF_Unv.lookup.clear()
    PE._UF_Strict.lookup.clear()
    PE._UF_Unv_key.clear()
    for nm in (
        "_simple_proc_cache",
        "_globenv_proc_cache",
        "_proc_effs_cache",
        "_proc_changeset_cache",
        "_overapprox_proc_cache",
    ):
        getattr(NE, nm).clear()
    if "sym" in _base:
        Sym._unq_count = _base["sym"]
    # content-keyed memo tables (functools.cache / lru_cache) inside exo: harmless
    # semantically, but they change how many line events a call executes
    import sys as _sys

    for mname, mod in list(_sys.modules.items()):
        if not (mname == "exo" or mname.startswith("exo.")) or mod is None:
            continue
        for obj in list(vars(mod).values()):
            cc = getattr(obj, "cache_clear", None)
            if callable(cc):
                try:
                    cc()
                except Exception:
                    pass
            if isinstance(obj, type):
                for sub in list(vars(obj).values()):
                    cc = getattr(sub, "cache_clear", None)
                    if callable(cc):
                        try:
                            cc()
                        except Exception:
                            pass
    # fresh z3 context: z3's verdict on hard (div/mod) queries otherwise depends
    # on everything the process asked before
    try:
        import z3

        z3.z3._main_ctx = None
    except Exception:
        pass
    try:
        from exo.core.memory import StaticMemory

        def rec(c):
            if "is_chunk_allocated" in c.__dict__ or c is StaticMemory:
                c.is_chunk_allocated = [False] * len(c.is_chunk_allocated)
            for s in c.__subclasses__():
                rec(s)

        rec(StaticMemory)
        from . import session as _S

        for c in _S._SIMSTATIC:
            c.reg.clear()
    except Exception:
        pass

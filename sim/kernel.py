"""Simulation kernel: one integer decides everything.

* ``substream(seed, *names)`` derives independent ``random.Random`` streams
  from one integer by hashing, so adding a draw in one stream never shifts
  another.
* ``EventLog`` is an append-only list of JSON-able records with a running
  digest.  Logging never draws from a PRNG and never reads a clock.
* ``Probes`` are named counters ("this rare branch was hit").
"""
from __future__ import annotations

import hashlib
import json
import os
import random
from collections import Counter

GUARD = "EXO_VERIF_SIM"


def _h(*parts) -> int:
    m = hashlib.sha256()
    for p in parts:
        m.update(repr(p).encode())
        m.update(b"\x00")
    return int.from_bytes(m.digest()[:8], "big")


def derive_seed(*parts) -> int:
    """Stable 63-bit seed derived from arbitrary repr-able parts."""
    return _h(*parts) & ((1 << 63) - 1)


def substream(seed: int, *names) -> random.Random:
    return random.Random(derive_seed(seed, *names))


def base_seed() -> int:
    try:
        return int(os.environ.get("VERIF_SEED", "0"))
    except ValueError:
        return derive_seed(os.environ.get("VERIF_SEED"))


class EventLog:
    """Deterministic event log.  ``digest()`` is what the determinism
    self-tests compare."""

    def __init__(self, keep: bool = True):
        self.keep = keep
        self.events: list = []
        self._m = hashlib.sha256()
        self.n = 0

    def log(self, _kind: str, **kw):
        rec = {"k": _kind, **kw}
        s = json.dumps(rec, sort_keys=True, default=str)
        self._m.update(s.encode())
        self._m.update(b"\n")
        self.n += 1
        if self.keep:
            self.events.append(rec)

    def digest(self) -> str:
        return self._m.hexdigest()[:24]


class Probes(Counter):
    def hit(self, name: str, n: int = 1):
        self[name] += n


class Violation(Exception):
    """Raised by an oracle.  ``sig`` is the stable signature class used by
    the shrinker and by known-finding matching; ``detail`` is free text."""

    def __init__(self, prop: str, sig: str, detail: str = "", key: dict | None = None):
        super().__init__(f"{prop}: {sig}: {detail}")
        self.prop = prop
        self.sig = sig
        self.detail = detail
        self.key = key or {}

    def to_json(self):
        return {"prop": self.prop, "sig": self.sig, "detail": self.detail, "key": self.key}


class SimCrash(Exception):
    """Injected fault F3, Exception flavour (models MemoryError/RecursionError)."""


class SimInterrupt(BaseException):
    """Injected fault F3, BaseException flavour (models KeyboardInterrupt)."""


def stable_hash(*parts) -> str:
    """Hash that does not depend on PYTHONHASHSEED (for event logs)."""
    m = hashlib.sha256()
    for p in parts:
        m.update(str(p).encode())
        m.update(b"\x00")
    return m.hexdigest()[:12]


def classify_text_diff(a, b) -> str:
    """Coarse class of the difference between two compilation results (used to keep the known-finding
    key of the StaticMemory allocator leak narrow): "define-lines-only" when every differing line is a
    `#define <buffer> <slot>` line (the slot a register-file memory handed out), else "other"."""
    def lines(x):
        if isinstance(x, (tuple, list)):
            x = "\n".join(str(t) for t in x)
        return str(x).splitlines()

    la, lb = lines(a), lines(b)
    if len(la) != len(lb):
        return "other"
    diff = [(p, q) for p, q in zip(la, lb) if p != q]
    if diff and all(p.lstrip().startswith("#define ") and q.lstrip().startswith("#define ") for p, q in diff):
        return "define-lines-only"
    return "other"

"""C01 / C04 / C10 / C05 oracle: run the origin procedure and a derived one in
the reference interpreter on the same seeded inputs and compare final argument
buffers, final configuration (modulo the set Exo itself reports) and the
safety monitors."""
from __future__ import annotations

from exo.core.configs import reverse_config_lookup
from exo.core import proc_eqv as PE

from .. import inputs as INP
from ..interp import InterpBudget, InterpUnsupported, InterpUnbound

CONFIG_OPS = {"bind_config", "write_config", "delete_config", "call_eqv"}
SAFETY_KINDS = {
    "oob-read": "out-of-bounds",
    "oob-write": "out-of-bounds",
    "callee-assert": "callee-assertion",
    "shape-mismatch": "call-shape-mismatch",
    "nonpositive-size": "call-nonpositive-size",
    "alias": "aliased-call-arguments",
    "negative-trip-count": "negative-trip-count",
    "nonpositive-alloc": "nonpositive-alloc",
    "rank-mismatch": "rank-mismatch",
}


def root_of(p):
    while p._provenance_eq_Procedure is not None:
        p = p._provenance_eq_Procedure
    return p


class SemOracle:
    def __init__(self, rng, probes, n_inputs=2, max_steps=60000, max_size=5):
        self.rng = rng
        self.probes = probes
        self.n_inputs = n_inputs
        self.max_steps = max_steps
        self.max_size = max_size
        self.ref = {}  # id(root ir) -> (root_ir, [ (spec, cfg, ref_result) ]) or None
        self.seen = {}  # id(ir) -> (ir, set of (prop, sig)) found on that procedure

    def _refs(self, root_ir):
        k = id(root_ir)
        if k in self.ref:
            return self.ref[k][1]
        runs = []
        try:
            cfgs = INP.collect_configs(root_ir)
            for _ in range(self.n_inputs):
                spec = INP.gen_spec(root_ir, self.rng, max_size=self.max_size)
                cfg = INP.gen_config(cfgs, self.rng)
                r = INP.run_proc(root_ir, spec, cfg, max_steps=self.max_steps)
                runs.append((spec, cfg, r))
        except INP.NoInput as e:
            self.probes.hit("sem_no_input")
            runs = None
        except InterpBudget:
            self.probes.hit("sem_budget_root")
            runs = None
        except (InterpUnsupported, InterpUnbound) as e:
            self.probes.hit("sem_unsupported_root")
            runs = None
        except RecursionError:
            self.probes.hit("sem_recursion")
            runs = None
        self.ref[k] = (root_ir, runs)  # keep root_ir alive so ids stay unique
        return runs

    def reported_fields(self, root_ir, new_ir):
        """{(Config, field)} Exo reports as possibly changed, or None when the
        two are not tracked as equivalent at all."""
        try:
            is_eqv, keys = PE.get_strictest_eqv_proc(root_ir, new_ir)
        except KeyError:
            return None
        if not is_eqv:
            return None
        out = set()
        for k in keys:
            try:
                out.add(reverse_config_lookup(k))
            except KeyError:
                pass
        return out

    def check(self, root_ir, new_ir, op_name="?", in_ir=None):
        """Returns the violations the step in_ir -> new_ir introduced (those
        already present on in_ir were attributed to an earlier step)."""
        vs = self._check(root_ir, new_ir, op_name)
        self.seen[id(new_ir)] = (new_ir, {(v["prop"], v["sig"]) for v in vs})
        if in_ir is not None and id(in_ir) in self.seen:
            old = {sg for _, sg in self.seen[id(in_ir)][1]}
            kept = [v for v in vs if v["sig"] not in old]
            if len(kept) != len(vs):
                self.probes.hit("sem_inherited_violation", len(vs) - len(kept))
            return kept
        return vs

    def _check(self, root_ir, new_ir, op_name="?"):
        """Returns list of violation dicts {prop, sig, detail}."""
        refs = self._refs(root_ir)
        if not refs:
            return []
        viols = []
        rep = self.reported_fields(root_ir, new_ir)
        if rep is None:
            self.probes.hit("sem_not_tracked_eqv")
            return []
        cfg_op = op_name in CONFIG_OPS
        for spec, cfg, ref in refs:
            ref_kinds = ref["mon"].kinds()
            if ref_kinds & set(SAFETY_KINDS):
                self.probes.hit("sem_root_itself_unsafe")
                continue
            try:
                got = INP.run_proc(new_ir, spec, cfg, max_steps=self.max_steps * 3)
            except INP.NoInput:
                self.probes.hit("sem_signature_changed")
                return viols
            except InterpBudget:
                self.probes.hit("sem_budget_new")
                continue
            except InterpUnbound as e:
                viols.append({"prop": "C04", "sig": "unbound-use", "detail": f"{e} is used outside any declaration"})
                break
            except InterpUnsupported as e:
                msg = str(e)
                if "input violates assertion" in msg:
                    # derived procedure has a stronger precondition than its origin
                    viols.append(
                        {
                            "prop": "C01",
                            "sig": "precondition-strengthened",
                            "detail": msg[:300],
                        }
                    )
                    continue
                self.probes.hit("sem_unsupported_new")
                continue
            except RecursionError:
                self.probes.hit("sem_recursion")
                continue
            self.probes.hit("sem_compared")
            # safety monitors (C04)
            for kind in sorted(got["mon"].kinds() - ref_kinds):
                if kind in SAFETY_KINDS:
                    info = got["mon"].first(kind)
                    viols.append(
                        {
                            "prop": "C04",
                            "sig": SAFETY_KINDS[kind],
                            "detail": f"{kind} {info} (sizes {[d.get('v') for d in spec if d['k']=='int']})",
                        }
                    )
                elif kind == "poison-read":
                    self.probes.hit("sem_new_poison_read")
                elif kind == "oob-window":
                    self.probes.hit("sem_new_oob_window")
            ign = {(c, f) for (c, f) in rep}
            diff = INP.compare_states(ref, got, ignore_cfg=ign)
            if diff is None:
                continue
            if diff["kind"] == "poison-out":
                viols.append(
                    {
                        "prop": "C04",
                        "sig": "uninitialised-read",
                        "detail": f"arg #{diff['arg']} element {diff['flat']} is uninitialised after the derived "
                        f"procedure but {diff['ref']} after the original",
                    }
                )
            elif diff["kind"] in ("value", "size"):
                viols.append(
                    {
                        "prop": "C10" if cfg_op else "C01",
                        "sig": "buffer-differs",
                        "detail": f"arg #{diff['arg']} element {diff.get('flat')}: original {diff.get('ref')} derived "
                        f"{diff.get('got')} (sizes {[d.get('v') for d in spec if d['k'] in ('int','bool')]})",
                    }
                )
            elif diff["kind"] == "config":
                bad = [f"{c.name()}.{f}" for (c, f) in diff["fields"] if (c, f) not in ign]
                viols.append(
                    {
                        "prop": "C10",
                        "sig": "unreported-config-change",
                        "detail": f"final value of {bad} differs but reported set is "
                        f"{sorted(c.name()+'.'+f for c, f in rep)}",
                    }
                )
        return viols

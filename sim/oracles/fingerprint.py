"""Deep structural fingerprints of LoopIR trees (C07 items 1, 5; C18
alpha-canonical text)."""
from __future__ import annotations

from exo.core.LoopIR import LoopIR
from exo.core.prelude import Sym, SrcInfo
from exo.core.configs import Config
from exo.core.extern import Extern

_fields_cache = {}


def _fields(cls):
    f = _fields_cache.get(cls)
    if f is None:
        f = tuple(a.name for a in getattr(cls, "__attrs_attrs__", ()) if a.name != "srcinfo")
        _fields_cache[cls] = f
    return f


def fingerprint(node, procs_seen=None, count=None):
    """Hashable nested-tuple summary of every field reachable from `node`
    (lists by content, Syms as (name,id), callee procs recursively, srcinfo
    ignored).  Returned as a Python int hash to keep memory flat."""
    procs_seen = {} if procs_seen is None else procs_seen

    def go(n):
        if count is not None:
            count[0] += 1
        if n is None or isinstance(n, (bool, int, float, str)):
            return n
        if isinstance(n, Sym):
            return (n._nm, n._id)
        if isinstance(n, list):
            return ("L",) + tuple(go(x) for x in n)
        if isinstance(n, tuple):
            return ("T",) + tuple(go(x) for x in n)
        if isinstance(n, LoopIR.proc):
            k = id(n)
            if k in procs_seen:
                return ("procref", procs_seen[k])
            procs_seen[k] = len(procs_seen)
            return ("proc",) + tuple(go(getattr(n, f)) for f in _fields(type(n)))
        cls = type(n)
        fs = _fields(cls)
        if fs or hasattr(cls, "__attrs_attrs__"):
            return hash((cls.__name__,) + tuple(go(getattr(n, f)) for f in fs))
        if isinstance(n, Config):
            return ("cfg", n.name())
        if isinstance(n, Extern):
            return ("ext", n.name())
        if isinstance(n, type):
            return ("cls", n.__name__)
        if isinstance(n, SrcInfo):
            return None
        if isinstance(n, (set, frozenset)):
            return ("S",) + tuple(sorted(map(repr, n)))
        if isinstance(n, dict):
            return ("D",) + tuple((go(k), go(v)) for k, v in n.items())
        return ("?", type(n).__name__, repr(n)[:80])

    return hash(go(node))


def node_count(proc):
    c = [0]
    fingerprint(proc, count=c)
    return c[0]


def callees(proc, acc=None):
    """All LoopIR.proc objects reachable through Call statements (excluding
    `proc` itself), in first-visit order."""
    acc = [] if acc is None else acc

    def do(stmts):
        for s in stmts:
            if isinstance(s, LoopIR.Call):
                if all(s.f is not x for x in acc):
                    acc.append(s.f)
                    do(s.f.body)
            elif isinstance(s, LoopIR.If):
                do(s.body)
                do(s.orelse)
            elif isinstance(s, LoopIR.For):
                do(s.body)

    do(proc.body)
    return acc


def stmt_paths(proc, max_n=None):
    """[(path, node)] for every statement of proc in program order; path is a
    list of (attr, idx) as used by internal cursors."""
    out = []

    def rec(stmts, prefix, attr):
        for i, s in enumerate(stmts):
            p = prefix + [(attr, i)]
            out.append((p, s))
            if max_n is not None and len(out) >= max_n:
                return
            if isinstance(s, LoopIR.If):
                rec(s.body, p, "body")
                rec(s.orelse, p, "orelse")
            elif isinstance(s, LoopIR.For):
                rec(s.body, p, "body")

    rec(proc.body, [], "body")
    return out

"""Deep structural fingerprints of LoopIR trees (C07 items 1, 5; C18
alpha-canonical text)."""
from __future__ import annotations

from exo.core.LoopIR import LoopIR
from exo.core.prelude import Sym, SrcInfo
from exo.core.configs import Config
from exo.core.extern import Extern

_fields_cache = {}


def _fields(cls):
    f = _fields_cache.get(cls)
    if f is None:
        f = tuple(a.name for a in getattr(cls, "__attrs_attrs__", ()) if a.name != "srcinfo")
        _fields_cache[cls] = f
    return f


def fingerprint(node, procs_seen=None, count=None):
    """Hashable nested-tuple summary of every field reachable from `node`
    (lists by content, Syms as (name,id), callee procs recursively, srcinfo
    ignored).  Returned as a Python int hash to keep memory flat."""
    procs_seen = {} if procs_seen is None else procs_seen

    def go(n):
        if count is not None:
            count[0] += 1
        if n is None or isinstance(n, (bool, int, float, str)):
            return n
        if isinstance(n, Sym):
            return (n._nm, n._id)
        if isinstance(n, list):
            return ("L",) + tuple(go(x) for x in n)
        if isinstance(n, tuple):
            return ("T",) + tuple(go(x) for x in n)
        if isinstance(n, LoopIR.proc):
            k = id(n)
            if k in procs_seen:
                return ("procref", procs_seen[k])
            procs_seen[k] = len(procs_seen)
            return ("proc",) + tuple(go(getattr(n, f)) for f in _fields(type(n)))
        cls = type(n)
        fs = _fields(cls)
        if fs or hasattr(cls, "__attrs_attrs__"):
            return hash((cls.__name__,) + tuple(go(getattr(n, f)) for f in fs))
        if isinstance(n, Config):
            return ("cfg", n.name())
        if isinstance(n, Extern):
            return ("ext", n.name())
        if isinstance(n, type):
            return ("cls", n.__name__)
        if isinstance(n, SrcInfo):
            return None
        if isinstance(n, (set, frozenset)):
            return ("S",) + tuple(sorted(map(repr, n)))
        if isinstance(n, dict):
            return ("D",) + tuple((go(k), go(v)) for k, v in n.items())
        if hasattr(n, "__dataclass_fields__"):
            return (type(n).__name__,) + tuple(go(getattr(n, f)) for f in n.__dataclass_fields__)
        if type(n).__name__ == "AEnv":
            return ("AEnv", go(n.bindings), tuple(sorted(repr(x) for x in n.names)))
        return ("?", type(n).__name__)

    return hash(go(node))


def node_count(proc):
    c = [0]
    fingerprint(proc, count=c)
    return c[0]


def callees(proc, acc=None):
    """All LoopIR.proc objects reachable through Call statements (excluding
    `proc` itself), in first-visit order."""
    acc = [] if acc is None else acc

    def do(stmts):
        for s in stmts:
            if isinstance(s, LoopIR.Call):
                if all(s.f is not x for x in acc):
                    acc.append(s.f)
                    do(s.f.body)
            elif isinstance(s, LoopIR.If):
                do(s.body)
                do(s.orelse)
            elif isinstance(s, LoopIR.For):
                do(s.body)

    do(proc.body)
    return acc


def stmt_paths(proc, max_n=None):
    """[(path, node)] for every statement of proc in program order; path is a
    list of (attr, idx) as used by internal cursors."""
    out = []

    def rec(stmts, prefix, attr):
        for i, s in enumerate(stmts):
            p = prefix + [(attr, i)]
            out.append((p, s))
            if max_n is not None and len(out) >= max_n:
                return
            if isinstance(s, LoopIR.If):
                rec(s.body, p, "body")
                rec(s.orelse, p, "orelse")
            elif isinstance(s, LoopIR.For):
                rec(s.body, p, "body")

    rec(proc.body, [], "body")
    return out


CACHE_NAMES = (
    "_simple_proc_cache",
    "_globenv_proc_cache",
    "_proc_effs_cache",
    "_proc_changeset_cache",
    "_overapprox_proc_cache",
)


def cache_snapshot(seen: dict):
    """C07 item 5: analysis caches keyed by procedure hold lists/sets/environments
    that are shared by reference with every later analysis.  Records a
    fingerprint of every entry the first time it is seen and returns the list of
    (cache name, proc name) whose value changed since."""
    from exo.rewrite import new_eff as NE

    changed = []
    for cn in CACHE_NAMES:
        cache = getattr(NE, cn, None)
        if not isinstance(cache, dict):
            continue
        for k, v in list(cache.items()):
            key = (cn, id(k))
            try:
                fp = fingerprint(v)
            except RecursionError:
                continue
            old = seen.get(key)
            if old is None:
                seen[key] = (k, fp)  # keep k alive so ids stay unique
            elif old[1] != fp:
                seen[key] = (k, fp)
                changed.append((cn, str(getattr(k, "name", "?"))))
    return changed

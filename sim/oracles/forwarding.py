"""C06 oracle: forwarding by object identity.

Rewritten trees share untouched nodes with their source and moved statements
keep their identity, so "denotes the same statement" has a sound core:

 1. a returned cursor belongs to the new procedure and resolves (no dangling
    path);
 2. if the very statement object the old cursor denoted still occurs in the new
    tree, the forwarded cursor must resolve to that object;
 3. otherwise (the node was rebuilt) the result is a statement of the same class;
 4. gaps forward to gaps anchored at (an occurrence of) the forwarded anchor.

InvalidCursorError / NotImplementedError count as "target no longer exists".
"""
from __future__ import annotations

from exo.core import internal_cursors as IC
from exo import API_cursors as AC
from exo.core.LoopIR import LoopIR

from .fingerprint import stmt_paths

GONE = (IC.InvalidCursorError,)
DANGLING = (IndexError, AttributeError, KeyError, TypeError, ValueError)


def _ident_map(ir):
    m = {}
    for path, s in stmt_paths(ir):
        m.setdefault(id(s), []).append(path)
    return m


def check_forwarding(p_old, p_new, probes, max_stmts=400, rng=None, want_gaps=True, want_blocks=True, chain=()):
    """Forward every statement (and gap, and a few blocks) cursor of `p_old`
    to `p_new`.  Returns a list of violation dicts (empty if fine)."""
    old_ir = p_old._loopir_proc
    new_ir = p_new._loopir_proc
    viols = []
    old_stmts = stmt_paths(old_ir)
    if len(old_stmts) > max_stmts and rng is not None:
        old_stmts = rng.sample(old_stmts, max_stmts)
    elif len(old_stmts) > max_stmts:
        old_stmts = old_stmts[:max_stmts]
    new_map = _ident_map(new_ir)
    old_count = {}
    for _p, _s in stmt_paths(old_ir):
        old_count[id(_s)] = old_count.get(id(_s), 0) + 1
    # intermediate procedures of the chain: a step that duplicated a statement object (cut_loop tail,
    # specialize, ...) makes identity ambiguous from there on
    for mid in chain:
        cnt = {}
        for _p, _s in stmt_paths(mid._loopir_proc):
            cnt[id(_s)] = cnt.get(id(_s), 0) + 1
        for k, v in cnt.items():
            if v > 1 and k in old_count:
                old_count[k] = max(old_count[k], v)

    def bad(sig, detail, path, s):
        viols.append(
            {
                "sig": sig,
                "detail": detail,
                "path": [list(x) for x in path],
                "stmt_class": type(s).__name__,
            }
        )

    for path, s in old_stmts:
        try:
            cur = AC.lift_cursor(IC.Node(old_ir, list(path)), p_old)
        except Exception as e:  # cannot even build the source cursor: harness issue
            probes.hit("fwd_source_cursor_error")
            continue
        # identity is only a usable witness when the object denotes ONE statement
        # of the old tree (specialize & co. legitimately share unrenamed
        # statement objects between the copies they create)
        unique_old = old_count.get(id(s), 0) == 1
        survives = unique_old and id(s) in new_map
        if not unique_old:
            probes.hit("fwd_shared_object_in_source")
        try:
            r = p_new.forward(cur)
        except GONE:
            probes.hit("fwd_gone")
            if survives:
                probes.hit("fwd_survivor_reported_gone")
            continue
        except NotImplementedError:
            probes.hit("fwd_not_implemented")
            continue
        except AssertionError as e:
            probes.hit("fwd_assertion_error")
            continue
        except DANGLING as e:
            bad("dangling", f"{type(e).__name__}: {e}", path, s)
            continue
        probes.hit("fwd_returned")
        try:
            if r.proc() is not p_new:
                bad("wrong-proc", "forwarded cursor does not belong to the target procedure", path, s)
                continue
            impl = r._impl
            if not isinstance(impl, IC.Node):
                bad("kind-change", f"statement cursor forwarded to {type(impl).__name__}", path, s)
                continue
            if impl._root is not new_ir:
                bad("wrong-root", "forwarded cursor is rooted in another tree", path, s)
                continue
            # re-resolve from scratch (do not trust cached _node)
            node = IC.Node(new_ir, list(impl._path))._node
        except DANGLING as e:
            bad("dangling", f"{type(e).__name__}: {e}", path, s)
            continue
        if survives:
            if node is not s:
                bad(
                    "different-statement",
                    f"original {type(s).__name__} object still occurs at {new_map[id(s)][:2]} but forward gives "
                    f"{type(node).__name__} at {impl._path}",
                    path,
                    s,
                )
                continue
            probes.hit("fwd_same_object")
        else:
            if not isinstance(node, LoopIR.stmt):
                bad("kind-change", f"statement forwarded to {type(node).__name__}", path, s)
                continue
            if type(node) is not type(s):
                bad("class-change", f"{type(s).__name__} forwarded to {type(node).__name__}", path, s)
                continue
            probes.hit("fwd_rebuilt_same_class")
        if want_gaps:
            for gt in (IC.GapType.Before, IC.GapType.After):
                try:
                    g = AC.lift_cursor(IC.Gap(old_ir, IC.Node(old_ir, list(path)), gt), p_old)
                    rg = p_new.forward(g)
                except GONE:
                    probes.hit("fwd_gap_gone_but_anchor_ok")
                    continue
                except (NotImplementedError, AssertionError):
                    continue
                except DANGLING as e:
                    bad("gap-dangling", f"{type(e).__name__}: {e}", path, s)
                    continue
                gi = rg._impl
                if not isinstance(gi, IC.Gap):
                    bad("gap-kind-change", f"gap forwarded to {type(gi).__name__}", path, s)
                    continue
                try:
                    an = IC.Node(new_ir, list(gi._anchor._path))._node
                except DANGLING as e:
                    bad("gap-dangling", f"{type(e).__name__}: {e}", path, s)
                    continue
                probes.hit("fwd_gap_returned")
                if survives and an is not s:
                    # moved anchors are legal for some edits; keep as probe unless
                    # the statement forward itself said "same object"
                    probes.hit("fwd_gap_anchor_differs")
                if gi._type != gt:
                    probes.hit("fwd_gap_type_changed")
    if want_blocks:
        _check_blocks(p_old, p_new, new_ir, probes, viols, rng)
    return viols


def _blocks_of(ir, cap=40):
    out = []

    def rec(node_path, stmts, attr):
        if stmts:
            out.append((node_path, attr, len(stmts)))
        for i, s in enumerate(stmts):
            p = node_path + [(attr, i)]
            if isinstance(s, LoopIR.If):
                rec(p, s.body, "body")
                rec(p, s.orelse, "orelse")
            elif isinstance(s, LoopIR.For):
                rec(p, s.body, "body")
            if len(out) >= cap:
                return

    rec([], ir.body, "body")
    return out


def _check_blocks(p_old, p_new, new_ir, probes, viols, rng):
    old_ir = p_old._loopir_proc
    for node_path, attr, n in _blocks_of(old_ir):
        ranges = [range(0, n)]
        if n >= 2:
            ranges.append(range(0, 1))
            ranges.append(range(n - 1, n))
        if n >= 3:
            ranges.append(range(1, n))
        for rg in ranges:
            try:
                blk = IC.Block(old_ir, IC.Node(old_ir, list(node_path)), attr, rg)
                cur = AC.lift_cursor(blk, p_old)
                r = p_new.forward(cur)
            except GONE:
                probes.hit("fwd_block_gone")
                continue
            except (NotImplementedError, AssertionError):
                probes.hit("fwd_block_ni_or_assert")
                continue
            except DANGLING as e:
                viols.append(
                    {
                        "sig": "block-dangling",
                        "detail": f"{type(e).__name__}: {e}",
                        "path": [list(x) for x in node_path] + [[attr, [rg.start, rg.stop]]],
                        "stmt_class": "Block",
                        "attr": attr,
                    }
                )
                continue
            probes.hit("fwd_block_returned")
            bi = r._impl
            if not isinstance(bi, IC.Block):
                viols.append(
                    {
                        "sig": "block-kind-change",
                        "detail": f"block forwarded to {type(bi).__name__}",
                        "path": [list(x) for x in node_path] + [[attr, [rg.start, rg.stop]]],
                        "stmt_class": "Block",
                        "attr": attr,
                    }
                )
                continue
            try:
                nodes = [
                    IC.Node(new_ir, list(bi._anchor._path) + [(bi._attr, i)])._node for i in bi._range
                ]
                if not nodes or not all(isinstance(x, LoopIR.stmt) for x in nodes):
                    raise IndexError("empty or non-statement block")
            except DANGLING as e:
                viols.append(
                    {
                        "sig": "block-dangling",
                        "detail": f"{type(e).__name__}: {e}",
                        "path": [list(x) for x in node_path] + [[attr, [rg.start, rg.stop]]],
                        "stmt_class": "Block",
                        "attr": attr,
                    }
                )
                continue
            # probe: members that survive by identity should be inside the block
            olds = [getattr(IC.Node(old_ir, list(node_path))._node, attr)[i] for i in rg]
            ids = {id(x) for x in nodes}
            for o in olds:
                if id(o) in ids:
                    probes.hit("fwd_block_member_kept")
                else:
                    probes.hit("fwd_block_member_not_in_result")

"""C06 oracle: forwarding by object identity.

Rewritten trees share untouched nodes with their source and moved statements
keep their identity, so "denotes the same statement" has a sound core:

 1. a returned cursor belongs to the new procedure and resolves (no dangling
    path);
 2. if the very statement object the old cursor denoted still occurs in the new
    tree, the forwarded cursor must resolve to that object;
 3. otherwise (the node was rebuilt) the result is a statement of the same class;
 4. gaps forward to gaps anchored at (an occurrence of) the forwarded anchor.

InvalidCursorError / NotImplementedError count as "target no longer exists".
"""
from __future__ import annotations

from exo.core import internal_cursors as IC
from exo import API_cursors as AC
from exo.core.LoopIR import LoopIR

from .fingerprint import stmt_paths

GONE = (IC.InvalidCursorError,)
DANGLING = (IndexError, AttributeError, KeyError, TypeError, ValueError)


def _ident_map(ir):
    m = {}
    for path, s in stmt_paths(ir):
        m.setdefault(id(s), []).append(path)
    return m


def check_forwarding(p_old, p_new, probes, max_stmts=400, rng=None, want_gaps=True, want_blocks=True, chain=(), soft=None):
    """Forward every statement (and gap, and a few blocks) cursor of `p_old`
    to `p_new`.  Returns a list of violation dicts (empty if fine)."""
    old_ir = p_old._loopir_proc
    new_ir = p_new._loopir_proc
    viols = []
    old_stmts = stmt_paths(old_ir)
    if len(old_stmts) > max_stmts and rng is not None:
        old_stmts = rng.sample(old_stmts, max_stmts)
    elif len(old_stmts) > max_stmts:
        old_stmts = old_stmts[:max_stmts]
    new_map = _ident_map(new_ir)
    old_count = {}
    for _p, _s in stmt_paths(old_ir):
        old_count[id(_s)] = old_count.get(id(_s), 0) + 1
    # intermediate procedures of the chain: a step that duplicated a statement object (cut_loop tail,
    # specialize, ...) makes identity ambiguous from there on
    for mid in chain:
        cnt = {}
        for _p, _s in stmt_paths(mid._loopir_proc):
            cnt[id(_s)] = cnt.get(id(_s), 0) + 1
        for k, v in cnt.items():
            if v > 1 and k in old_count:
                old_count[k] = max(old_count[k], v)

    def bad(sig, detail, path, s):
        viols.append(
            {
                "sig": sig,
                "detail": detail,
                "path": [list(x) for x in path],
                "stmt_class": type(s).__name__,
            }
        )

    for path, s in old_stmts:
        try:
            cur = AC.lift_cursor(IC.Node(old_ir, list(path)), p_old)
        except Exception as e:  # cannot even build the source cursor: harness issue
            probes.hit("fwd_source_cursor_error")
            continue
        # identity is only a usable witness when the object denotes ONE statement
        # of the old tree (specialize & co. legitimately share unrenamed
        # statement objects between the copies they create)
        unique_old = old_count.get(id(s), 0) == 1
        survives = unique_old and id(s) in new_map
        if not unique_old:
            probes.hit("fwd_shared_object_in_source")
        try:
            r = p_new.forward(cur)
        except GONE:
            probes.hit("fwd_gone")
            if survives:
                probes.hit("fwd_survivor_reported_gone")
            continue
        except NotImplementedError:
            probes.hit("fwd_not_implemented")
            continue
        except AssertionError as e:
            probes.hit("fwd_assertion_error")
            continue
        except DANGLING as e:
            bad("dangling", f"{type(e).__name__}: {e}", path, s)
            continue
        probes.hit("fwd_returned")
        try:
            if r.proc() is not p_new:
                bad("wrong-proc", "forwarded cursor does not belong to the target procedure", path, s)
                continue
            impl = r._impl
            if not isinstance(impl, IC.Node):
                bad("kind-change", f"statement cursor forwarded to {type(impl).__name__}", path, s)
                continue
            if impl._root is not new_ir:
                bad("wrong-root", "forwarded cursor is rooted in another tree", path, s)
                continue
            # re-resolve from scratch (do not trust cached _node)
            node = IC.Node(new_ir, list(impl._path))._node
        except DANGLING as e:
            bad("dangling", f"{type(e).__name__}: {e}", path, s)
            continue
        if survives:
            if node is not s:
                bad(
                    "different-statement",
                    f"original {type(s).__name__} object still occurs at {new_map[id(s)][:2]} but forward gives "
                    f"{type(node).__name__} at {impl._path}",
                    path,
                    s,
                )
                continue
            probes.hit("fwd_same_object")
        else:
            if not isinstance(node, LoopIR.stmt):
                bad("kind-change", f"statement forwarded to {type(node).__name__}", path, s)
                continue
            if type(node) is not type(s):
                bad("class-change", f"{type(s).__name__} forwarded to {type(node).__name__}", path, s)
                continue
            probes.hit("fwd_rebuilt_same_class")
        if want_gaps:
            for gt in (IC.GapType.Before, IC.GapType.After):
                try:
                    g = AC.lift_cursor(IC.Gap(old_ir, IC.Node(old_ir, list(path)), gt), p_old)
                    rg = p_new.forward(g)
                except GONE:
                    probes.hit("fwd_gap_gone_but_anchor_ok")
                    continue
                except (NotImplementedError, AssertionError):
                    continue
                except DANGLING as e:
                    bad("gap-dangling", f"{type(e).__name__}: {e}", path, s)
                    continue
                gi = rg._impl
                if not isinstance(gi, IC.Gap):
                    bad("gap-kind-change", f"gap forwarded to {type(gi).__name__}", path, s)
                    continue
                try:
                    an = IC.Node(new_ir, list(gi._anchor._path))._node
                except DANGLING as e:
                    bad("gap-dangling", f"{type(e).__name__}: {e}", path, s)
                    continue
                probes.hit("fwd_gap_returned")
                # item 2: forward(gap) is the same-sided gap of forward(anchor).  (Both were probes
                # first: 0 hits in >250k forwarded gaps of generated and harvested sessions on the
                # unchanged tree.)
                if list(map(tuple, gi._anchor._path)) != list(map(tuple, impl._path)):
                    bad("gap-anchor-differs", f"gap {gt.name} of the statement forwards to a gap anchored at {gi._anchor._path} "
                        f"but the statement itself forwards to {impl._path}", path, s)
                    continue
                if gi._type != gt:
                    bad("gap-side-changed", f"{gt.name} gap forwards to a {gi._type.name} gap", path, s)
                    continue
    if want_blocks:
        _check_blocks(p_old, p_new, new_ir, probes, viols, rng, soft)
    return viols


def _blocks_of(ir, cap=40):
    out = []

    def rec(node_path, stmts, attr):
        if stmts:
            out.append((node_path, attr, len(stmts)))
        for i, s in enumerate(stmts):
            p = node_path + [(attr, i)]
            if isinstance(s, LoopIR.If):
                rec(p, s.body, "body")
                rec(p, s.orelse, "orelse")
            elif isinstance(s, LoopIR.For):
                rec(p, s.body, "body")
            if len(out) >= cap:
                return

    rec([], ir.body, "body")
    return out


def _check_blocks(p_old, p_new, new_ir, probes, viols, rng, soft=None):
    old_ir = p_old._loopir_proc
    old_maps = None
    if soft is None:
        soft = []
    for node_path, attr, n in _blocks_of(old_ir):
        ranges = [range(0, n)]
        if n >= 2:
            ranges.append(range(0, 1))
            ranges.append(range(n - 1, n))
        if n >= 3:
            ranges.append(range(1, n))
        for rg in ranges:
            try:
                blk = IC.Block(old_ir, IC.Node(old_ir, list(node_path)), attr, rg)
                cur = AC.lift_cursor(blk, p_old)
                r = p_new.forward(cur)
            except GONE:
                probes.hit("fwd_block_gone")
                continue
            except (NotImplementedError, AssertionError):
                probes.hit("fwd_block_ni_or_assert")
                continue
            except DANGLING as e:
                viols.append(
                    {
                        "sig": "block-dangling",
                        "exc": type(e).__name__,
                        "detail": f"{type(e).__name__}: {e}",
                        "path": [list(x) for x in node_path] + [[attr, [rg.start, rg.stop]]],
                        "stmt_class": "Block",
                        "attr": attr,
                    }
                )
                continue
            probes.hit("fwd_block_returned")
            bi = r._impl
            if not isinstance(bi, IC.Block):
                viols.append(
                    {
                        "sig": "block-kind-change",
                        "detail": f"block forwarded to {type(bi).__name__}",
                        "path": [list(x) for x in node_path] + [[attr, [rg.start, rg.stop]]],
                        "stmt_class": "Block",
                        "attr": attr,
                    }
                )
                continue
            try:
                nodes = [
                    IC.Node(new_ir, list(bi._anchor._path) + [(bi._attr, i)])._node for i in bi._range
                ]
                if not nodes or not all(isinstance(x, LoopIR.stmt) for x in nodes):
                    raise IndexError("empty or non-statement block")
            except DANGLING as e:
                viols.append(
                    {
                        "sig": "block-dangling",
                        "exc": type(e).__name__,
                        "detail": f"{type(e).__name__}: {e}",
                        "path": [list(x) for x in node_path] + [[attr, [rg.start, rg.stop]]],
                        "stmt_class": "Block",
                        "attr": attr,
                    }
                )
                continue
            # probe: members that survive by identity should be inside the block
            olds = [getattr(IC.Node(old_ir, list(node_path))._node, attr)[i] for i in rg]
            ids = {id(x) for x in nodes}
            for o in olds:
                if id(o) in ids:
                    probes.hit("fwd_block_member_kept")
                else:
                    probes.hit("fwd_block_member_not_in_result")
            # extent rules ("denotes the same statements"), by identity of uniquely occurring objects:
            #  A. an old member that survives is found inside the extent of the forwarded block;
            #  B. a member of the forwarded block that already existed in the old tree was, there,
            #     a member of the block, inside one, or around (part of) it.
            if old_maps is None:
                old_maps = (_ident_map(old_ir), _ident_map(new_ir))
            o_map, n_map = old_maps
            b_paths = [tuple(map(tuple, list(bi._anchor._path) + [(bi._attr, i)])) for i in bi._range]
            old_b_paths = [tuple(map(tuple, list(node_path) + [(attr, i)])) for i in rg]

            def _within(pth, roots):
                pth = tuple(map(tuple, pth))
                return any(pth[: len(r_)] == r_ for r_ in roots)

            def _around(pth, roots):
                pth = tuple(map(tuple, pth))
                return any(r_[: len(pth)] == pth for r_ in roots)

            blkpath = [list(x) for x in node_path] + [[attr, [rg.start, rg.stop]]]
            for o in olds:
                if len(o_map.get(id(o), ())) == 1 and len(n_map.get(id(o), ())) == 1:
                    if not _within(n_map[id(o)][0], b_paths):
                        # a member moved out of the block's extent (lift_alloc, reorder_stmts of a
                        # sub-block): the forwarded block denotes a SUBSET - arguable, so a probe
                        soft.append({"sig": "block-loses-statement", "detail": f"{type(o).__name__} of the block survives at {n_map[id(o)][0]} "
                                     f"outside the forwarded block {bi._anchor._path}.{bi._attr}[{bi._range.start}:{bi._range.stop}]",
                                     "path": blkpath, "stmt_class": "Block", "attr": attr})
                        break
            # B. the forwarded block must not reach beyond the span of its own statements: a member of
            #    the new block that was OUTSIDE the original block (and not around it) and lies before all /
            #    after all surviving original members is "a different statement".  (exo treats a block as a
            #    region: statements moved INTO the region legitimately become members - enshrined in
            #    tests/golden/test_internal_cursors/test_move_forwarding_for_blocks.txt - so gains in the
            #    interior are not judged.)
            surv = []
            for o in olds:
                if len(o_map.get(id(o), ())) == 1 and len(n_map.get(id(o), ())) == 1:
                    np_ = tuple(map(tuple, n_map[id(o)][0]))
                    for k_, bp in enumerate(b_paths):
                        if np_[: len(bp)] == bp:
                            surv.append(k_)
                            break
            if surv:
                lo_s, hi_s = min(surv), max(surv)
                for k_, (nd, bp) in enumerate(zip(nodes, b_paths)):
                    if lo_s <= k_ <= hi_s:
                        continue
                    if len(n_map.get(id(nd), ())) == 1 and len(o_map.get(id(nd), ())) == 1:
                        op_ = o_map[id(nd)][0]
                        if not (_within(op_, old_b_paths) or _around(op_, old_b_paths)):
                            viols.append({"sig": "block-gains-statement", "detail": f"forwarded block {bi._anchor._path}.{bi._attr}"
                                          f"[{bi._range.start}:{bi._range.stop}] reaches beyond its own statements: it contains "
                                          f"{type(nd).__name__} which was at {op_}, outside the original block", "path": blkpath,
                                          "stmt_class": "Block", "attr": attr})
                            break


def forward_map(p_old, p_new, max_stmts=80):
    """Outcome of forwarding every statement cursor (and its before-gap) of
    `p_old` to `p_new`, as plain data: used to check that a later call that
    FAILS (or is interrupted) leaves earlier forwarding functions usable and
    unchanged - they are closures created by earlier operations."""
    old_ir = p_old._loopir_proc
    out = []

    def one(impl):
        try:
            r = p_new.forward(AC.lift_cursor(impl, p_old))
        except BaseException as e:  # noqa: BLE001 - outcome is data here
            if isinstance(e, (KeyboardInterrupt, SystemExit)):
                raise
            return ("exc", type(e).__name__)
        ri = r._impl
        if isinstance(ri, IC.Node):
            return ("node", tuple(map(tuple, ri._path)))
        if isinstance(ri, IC.Gap):
            return ("gap", tuple(map(tuple, ri._anchor._path)), str(ri._type))
        if isinstance(ri, IC.Block):
            return ("block", tuple(map(tuple, ri._anchor._path)), ri._attr, ri._range.start, ri._range.stop)
        return ("other", type(ri).__name__)

    for path, s in stmt_paths(old_ir)[:max_stmts]:
        n = IC.Node(old_ir, list(path))
        out.append((tuple(map(tuple, path)), one(n), one(IC.Gap(old_ir, n, IC.GapType.Before))))
    return out

"""C04 item 1: structural well-formedness of a LoopIR procedure - every use of
a symbol lies in the scope of exactly one binder of it."""
from __future__ import annotations

from exo.core.LoopIR import LoopIR, T


def binder_kind(proc, sym_repr: str) -> str:
    """Which kind of statement declares the symbol printed as `sym_repr`
    (e.g. 'w1_48') in `proc` - used to keep known-finding keys narrow."""
    for a in proc.args:
        if repr(a.name) == sym_repr:
            return "arg"

    def rec(stmts):
        for s in stmts:
            if isinstance(s, LoopIR.Alloc) and repr(s.name) == sym_repr:
                return "Alloc"
            if isinstance(s, LoopIR.WindowStmt) and repr(s.name) == sym_repr:
                return "WindowStmt"
            if isinstance(s, LoopIR.For):
                if repr(s.iter) == sym_repr:
                    return "For"
                r = rec(s.body)
                if r:
                    return r
            elif isinstance(s, LoopIR.If):
                r = rec(s.body) or rec(s.orelse)
                if r:
                    return r
        return None

    return rec(proc.body) or "none"


def validate(proc):
    """Returns a list of (sig, detail, symbol-repr)."""
    out = []

    def use(sym, scopes, what):
        n = sum(1 for sc in scopes if sym in sc)
        if n == 0:
            out.append(("unbound-use", f"{what} uses {sym!r} outside any declaration", repr(sym)))
        elif n > 1:
            out.append(("ambiguous-use", f"{what} uses {sym!r} declared {n} times in enclosing scopes", repr(sym)))

    def bind(sym, scopes, what):
        if any(sym in sc for sc in scopes):
            out.append(("duplicate-binder", f"{what} re-declares {sym!r} inside the scope of an earlier declaration", repr(sym)))
        scopes[-1].add(sym)

    def do_t(t, scopes):
        if isinstance(t, T.Tensor):
            for h in t.hi:
                do_e(h, scopes, "allocation extent")
        elif isinstance(t, T.Window):
            use(t.src_buf, scopes, "window type")

    def do_e(e, scopes, what="read"):
        if isinstance(e, LoopIR.Read):
            use(e.name, scopes, what)
            for i in e.idx:
                do_e(i, scopes, what)
        elif isinstance(e, LoopIR.BinOp):
            do_e(e.lhs, scopes, what)
            do_e(e.rhs, scopes, what)
        elif isinstance(e, LoopIR.USub):
            do_e(e.arg, scopes, what)
        elif isinstance(e, LoopIR.Extern):
            for a in e.args:
                do_e(a, scopes)
        elif isinstance(e, LoopIR.WindowExpr):
            use(e.name, scopes, "window expression")
            for w in e.idx:
                if isinstance(w, LoopIR.Interval):
                    do_e(w.lo, scopes)
                    do_e(w.hi, scopes)
                else:
                    do_e(w.pt, scopes)
        elif isinstance(e, LoopIR.StrideExpr):
            use(e.name, scopes, "stride expression")

    def do_stmts(stmts, scopes):
        scopes = scopes + [set()]
        for s in stmts:
            if isinstance(s, (LoopIR.Assign, LoopIR.Reduce)):
                use(s.name, scopes, "write")
                for i in s.idx:
                    do_e(i, scopes)
                do_e(s.rhs, scopes)
            elif isinstance(s, LoopIR.WriteConfig):
                do_e(s.rhs, scopes)
            elif isinstance(s, LoopIR.If):
                do_e(s.cond, scopes)
                do_stmts(s.body, scopes)
                do_stmts(s.orelse, scopes)
            elif isinstance(s, LoopIR.For):
                do_e(s.lo, scopes)
                do_e(s.hi, scopes)
                inner = scopes + [set()]
                bind(s.iter, inner, "loop")
                do_stmts(s.body, inner)
            elif isinstance(s, LoopIR.Alloc):
                do_t(s.type, scopes)
                bind(s.name, scopes, "alloc")
            elif isinstance(s, LoopIR.WindowStmt):
                do_e(s.rhs, scopes)
                bind(s.name, scopes, "window statement")
            elif isinstance(s, LoopIR.Call):
                if len(s.args) != len(s.f.args):
                    out.append(("call-arity", f"call to {s.f.name} with {len(s.args)} args, expects {len(s.f.args)}", ""))
                for fa, a in zip(s.f.args, s.args):
                    do_e(a, scopes)
                    if fa.type.is_numeric() != a.type.is_numeric():
                        out.append(("call-kind", f"argument {fa.name} of {s.f.name}: data/control mismatch", ""))
            elif isinstance(s, LoopIR.Free):
                use(s.name, scopes, "free")

    top = [set()]
    for a in proc.args:
        do_t(a.type, top)
        bind(a.name, top, "argument")
    for p in proc.preds:
        do_e(p, top)
    do_stmts(proc.body, top)
    return out

"""Harvested sessions: the repository's own tests are scripted scheduling
sessions (definitions + schedules + golden text).  They are executed by pytest
in-process inside a simulated World that owns the seams: id-hash salt, symbol
counter offset, test order (prefix history), and - around every atomic
scheduling call and every compile - seeded fault injection (crash point at a
line event, degraded solver F1, failing solver F2) with the "user re-runs the
cell" retry.  Invariants are evaluated at every scheduling call.
"""
from __future__ import annotations

import os
import sys
import time

from .kernel import classify_text_diff, EventLog, Probes, substream, derive_seed, SimCrash, SimInterrupt, stable_hash
from .seams import CrashSeam, SolverSeam, install_hash_salt, set_sym_offset, make_crash_exc

WORLD = None


def _solver_unknown(out):
    return out[0] == "exc" and (
        "unknown result from z3" in str(out[1]) or type(out[1]).__name__ == "SolverReturnedUnknownResultError"
    )

# tests of the baseline's always-fail set (need ninja / a C toolchain fixture)
ALWAYS_FAIL = """
tests/test_codegen.py::test_alloc_nest tests/test_codegen.py::test_alloc_nest_malloc tests/test_codegen.py::test_bool1
tests/test_codegen.py::test_const_local_buffer tests/test_codegen.py::test_const_local_window
tests/test_codegen.py::test_const_type_coercion tests/test_codegen.py::test_conv1d tests/test_codegen.py::test_free
tests/test_codegen.py::test_free2 tests/test_codegen.py::test_memcpy_instr tests/test_codegen.py::test_relu1
tests/test_codegen.py::test_reorder_blur tests/test_codegen.py::test_select1 tests/test_codegen.py::test_simple_blur
tests/test_codegen.py::test_simple_blur_split tests/test_codegen.py::test_sin1 tests/test_codegen.py::test_split_blur
tests/test_codegen.py::test_target_another_exo_library tests/test_codegen.py::test_unary_neg
tests/test_codegen.py::test_unroll_blur tests/test_codegen.py::test_window_of_window_codegen
tests/test_externs.py::test_expf tests/test_externs.py::test_fmaxf tests/test_externs.py::test_relu
tests/test_externs.py::test_relu2 tests/test_externs.py::test_relu3 tests/test_externs.py::test_relu4
tests/test_externs.py::test_select tests/test_externs.py::test_sigmoid tests/test_externs.py::test_sin
tests/test_externs.py::test_sqrt tests/test_precision.py::test_good_prec1
""".split()

CORE_FILES = [
    "tests/test_schedules.py",
    "tests/test_config.py",
    "tests/test_new_eff.py",
    "tests/test_cursors.py",
    "tests/test_window.py",
    "tests/test_parallel.py",
    "tests/test_forwarding.py",
    "tests/test_halide_ops.py",
    "tests/test_precision.py",
    "tests/test_externs.py",
    "tests/test_codegen.py",
    "tests/test_range_analysis.py",
    "tests/test_bounds.py",
    "tests/test_neon.py",
    "tests/test_x86.py",
]
HEAVY_FILES = ["tests/test_apps.py", "tests/test_examples.py", "tests/asplos25", "tests/amx", "tests/test_im2col.py"]

UNSAFE_OPS = {"add_unsafe_guard"}


def repo_root():
    return os.environ.get("EXO_REPO", "/repo")


class World:
    def __init__(self, seed: int, cfg: dict):
        self.seed = seed
        self.cfg = cfg
        self.log = EventLog(keep=False)
        self.probes = Probes()
        self.violations = []
        self.faults = {
            "F1_planned": 0, "F1_fired": 0, "F2_planned": 0, "F2_fired": 0,
            "F3_planned": 0, "F3_fired": 0, "F3_swallowed": 0,
            "compile_F3_planned": 0, "compile_F3_fired": 0,
        }
        self.installed = False
        self.depth = 0
        self.cur_test = None
        self.ncall = 0
        self.rng = None
        self.tests = {}
        self.test_order = []
        self.registry = {}  # id(Procedure) -> [Procedure, fp, strhash, test]
        self.tainted = set()
        self.crash = CrashSeam()
        self.solver = SolverSeam()
        self.ops_seen = {}
        self.calls_total = 0
        self.sem = None
        self.only = set(cfg.get("only_tests") or [])
        self.order = cfg.get("order")
        self.t_oracle = 0.0
        self.props = set(cfg.get("props") or ["C01", "C04", "C05", "C06", "C07", "C10", "C18"])
        self.known = cfg.get("known") or []
        self.known_hits = {}
        self.other_props = {}
        self.cache_seen = {}

    # ------------------------------------------------------------------ #

    def install(self):
        if self.installed:
            return
        self.installed = True
        cfg = self.cfg
        if cfg.get("salt") is not None:
            install_hash_salt(cfg["salt"])
        if cfg.get("sym_offset"):
            set_sym_offset(cfg["sym_offset"])
        import exo.API_scheduling as AS
        import exo.API as API

        world = self
        orig_call = AS.AtomicSchedulingOp.__call__

        def patched_call(op, *a, **kw):
            return world.sched_call(op, orig_call, a, kw)

        AS.AtomicSchedulingOp.__call__ = patched_call

        orig_init = API.Procedure.__init__

        def patched_init(self_, *a, **kw):
            orig_init(self_, *a, **kw)
            world.register(self_)

        API.Procedure.__init__ = patched_init

        if cfg.get("faults") and cfg.get("fault_compile", True):
            orig_rc = API.run_compile
            orig_cts = API.compile_to_strings

            def patched_rc(*a, **kw):
                return world.compile_call("run_compile", orig_rc, a, kw)

            def patched_cts(*a, **kw):
                return world.compile_call("compile_to_strings", orig_cts, a, kw)

            API.run_compile = patched_rc
            API.compile_to_strings = patched_cts
        if cfg.get("faults"):
            self.solver.install()
        if cfg.get("check_sem"):
            from .oracles.semantic import SemOracle

            self.sem = SemOracle(substream(self.seed, "sem-inputs"), self.probes, n_inputs=cfg.get("sem_inputs", 2))

    # ------------------------------------------------------------------ #
    # test selection / order

    def want_test(self, nodeid):
        nid = nodeid.split("[")[0]
        if nid in ALWAYS_FAIL or nodeid in ALWAYS_FAIL:
            return False
        if self.only:
            return nodeid in self.only
        shard = self.cfg.get("shard")
        if shard:
            k, n = shard
            return derive_seed("shard", nodeid) % n == k
        return True

    def order_tests(self, items):
        if self.order:
            pos = {n: i for i, n in enumerate(self.order)}
            items = sorted(items, key=lambda it: pos.get(it.nodeid, 1 << 30))
        elif self.cfg.get("shuffle"):
            r = substream(self.seed, "order")
            items = list(items)
            r.shuffle(items)
        self.test_order = [it.nodeid for it in items]
        return items

    # ------------------------------------------------------------------ #
    # per-test bookkeeping

    def begin_test(self, nodeid):
        self.cur_test = nodeid
        self.ncall = 0
        self.rng = substream(self.seed, "test", nodeid)
        self.tests[nodeid] = {"calls": 0, "outcome": None}
        self.log.log("test", id=nodeid)

    def end_test(self, nodeid, excinfo):
        # item 1 at end of test: every procedure created during it
        if self.cfg.get("check_pure"):
            t0 = time.monotonic()
            for k, rec in list(self.registry.items()):
                if rec[3] == nodeid:
                    self._verify(rec, "end-of-test", None)
            self.t_oracle += time.monotonic() - t0
        # drop per-test procedures (keeps memory flat); module-level ones stay
        for k in [k for k, r in self.registry.items() if r[3] == nodeid]:
            del self.registry[k]
        self.cur_test = None

    def test_outcome(self, nodeid, outcome, longrepr):
        if nodeid in self.tests:
            self.tests[nodeid]["outcome"] = outcome
            self.tests[nodeid]["why"] = longrepr
        else:
            self.tests[nodeid] = {"calls": 0, "outcome": outcome, "why": longrepr}
        self.log.log("outcome", id=nodeid, o=outcome)

    # ------------------------------------------------------------------ #
    # registry / purity

    def register(self, p):
        if not self.cfg.get("check_pure") and not self.cfg.get("check_fwd"):
            return
        from .oracles.fingerprint import fingerprint

        try:
            fp = fingerprint(p._loopir_proc) if self.cfg.get("check_pure") else None
        except RecursionError:
            fp = None
        sh = None
        if self.cfg.get("check_pure_str"):
            sh = hash(str(p))
        self.registry[id(p)] = [p, fp, sh, self.cur_test]

    def _verify(self, rec, when, opname):
        from .oracles.fingerprint import fingerprint

        p, fp, sh, _ = rec
        if fp is None:
            return
        try:
            now = fingerprint(p._loopir_proc)
        except RecursionError:
            return
        self.probes.hit("pure_checked")
        if now != fp:
            rec[1] = now  # report once
            self.violation(
                "C07",
                "source-procedure-mutated",
                f"procedure '{p.name()}' changed structurally ({when}, op={opname})",
                {"op": opname or "?", "sig": "source-procedure-mutated"},
            )
        elif sh is not None and hash(str(p)) != sh:
            rec[2] = hash(str(p))
            self.violation(
                "C07", "source-procedure-prints-differently", f"str('{p.name()}') changed ({when}, op={opname})",
                {"op": opname or "?", "sig": "source-procedure-prints-differently"},
            )

    def violation(self, prop, sig, detail, key):
        if prop not in self.props:
            self.other_props[prop] = self.other_props.get(prop, 0) + 1
            return
        key = dict(key)
        key["engine"] = "harvest"
        for k in self.known:
            if all(key.get(a) == b for a, b in k["match"].items()):
                self.known_hits[k["text"]] = self.known_hits.get(k["text"], 0) + 1
                return
        self.violations.append(
            {
                "prop": prop,
                "sig": sig,
                "detail": detail,
                "key": key,
                "test": self.cur_test,
                "call": self.ncall,
            }
        )
        self.log.log("violation", prop=prop, sig=sig, test=self.cur_test, call=self.ncall)

    # ------------------------------------------------------------------ #
    # the wrapped atomic scheduling call

    @staticmethod
    def _procs_in(a, kw):
        from exo.API import Procedure

        out = []
        for x in list(a) + list(kw.values()):
            if isinstance(x, Procedure):
                out.append(x)
        return out

    @staticmethod
    def _cursors_in(a, kw):
        from exo.API_cursors import Cursor

        out = []

        def rec(x):
            if isinstance(x, Cursor):
                out.append(x)
            elif isinstance(x, (list, tuple)):
                for y in x:
                    rec(y)

        for x in list(a) + list(kw.values()):
            rec(x)
        return out

    @staticmethod
    def _cursor_snapshot(c):
        impl = c._impl
        try:
            if hasattr(impl, "_path"):
                return (id(c._proc), id(impl._root), "N", tuple(map(tuple, impl._path)))
            if hasattr(impl, "_range"):
                return (id(c._proc), id(impl._root), "B", tuple(map(tuple, impl._anchor._path)), impl._attr, impl._range.start, impl._range.stop)
            if hasattr(impl, "_anchor"):
                return (id(c._proc), id(impl._root), "G", tuple(map(tuple, impl._anchor._path)), str(impl._type))
        except Exception:
            pass
        return (id(c._proc), id(getattr(impl, "_root", None)))

    def _outcome_sig(self, out):
        kind, v = out
        if kind == "exc":
            return ("exc", type(v).__name__)
        from exo.API import Procedure

        if isinstance(v, Procedure):
            return ("proc", stable_hash(str(v)))
        if isinstance(v, tuple):
            return ("tuple",) + tuple(stable_hash(str(x)) for x in v)
        return ("val", type(v).__name__)

    def sched_call(self, op, orig, a, kw):
        if self.depth > 0 or self.cur_test is None:
            return orig(op, *a, **kw)
        self.depth += 1
        try:
            return self._sched_call(op, orig, a, kw)
        finally:
            self.depth -= 1

    def _sched_call(self, op, orig, a, kw):
        cfg = self.cfg
        self.ncall += 1
        self.calls_total += 1
        self.tests[self.cur_test]["calls"] += 1
        name = getattr(op, "__name__", "?")
        procs = self._procs_in(a, kw)
        p_in = procs[0] if procs else None
        unsafe = name in UNSAFE_OPS or any(k.startswith("unsafe") and v for k, v in kw.items())
        curs = self._cursors_in(a, kw) if cfg.get("check_pure") else []
        cur_snap = [self._cursor_snapshot(c) for c in curs]

        fault = None
        if cfg.get("faults") and self.rng.random() < cfg.get("fault_rate", 0.0):
            fault = self.rng.choice(cfg["faults"])

        call = lambda: orig(op, *a, **kw)  # noqa: E731

        if fault is None:
            try:
                out = ("ret", call())
            except Exception as e:
                out = ("exc", e)
        else:
            out = self._faulted(name, call, fault, procs, p_in)

        osig = self._outcome_sig(out)
        self.log.log("call", op=name, o=osig[0], h=osig[1] if len(osig) > 1 else None)
        st = self.ops_seen.setdefault(name, [0, 0])
        st[0 if out[0] == "ret" else 1] += 1

        # invariants after the call, successful or not
        t0 = time.monotonic()
        if cfg.get("check_pure"):
            from .oracles.fingerprint import cache_snapshot

            for cn, pname in cache_snapshot(self.cache_seen):
                self.violation(
                    "C07", "analysis-cache-entry-mutated",
                    f"cached analysis of sub-procedure '{pname}' in {cn} changed after {name}",
                    {"op": name, "sig": "analysis-cache-entry-mutated", "cache": cn},
                )
            for p in procs:
                rec = self.registry.get(id(p))
                if rec is not None:
                    self._verify(rec, "after-call", name)
            k = cfg.get("pure_sample", 2)
            if k and self.registry:
                keys = list(self.registry)
                for _ in range(min(k, len(keys))):
                    self._verify(self.registry[keys[self.rng.randrange(len(keys))]], "after-call(sample)", name)
            for c, snap in zip(curs, cur_snap):
                if self._cursor_snapshot(c) != snap:
                    self.violation(
                        "C07", "cursor-mutated", f"a cursor passed to {name} was altered by the call",
                        {"op": name, "sig": "cursor-mutated"},
                    )
        from exo.API import Procedure

        if out[0] == "ret":
            results = [x for x in (out[1] if isinstance(out[1], tuple) else (out[1],)) if isinstance(x, Procedure)]
            if p_in is not None and (unsafe or id(p_in) in self.tainted):
                for r in results:
                    self.tainted.add(id(r))
            r0 = results[0] if results else None
            if r0 is not None and p_in is not None and r0 is not p_in:
                if cfg.get("check_fwd"):
                    self._check_fwd(name, p_in, r0)
                if cfg.get("check_sem") and id(r0) not in self.tainted:
                    self._check_sem(name, r0, p_in)
                if cfg.get("check_valid"):
                    self._check_valid(name, p_in, r0)
        self.t_oracle += time.monotonic() - t0
        if out[0] == "exc":
            raise out[1]
        return out[1]

    # ------------------------------------------------------------------ #
    # fault injection with retry ("the user re-runs the cell")

    def _faulted(self, name, call, fault, procs, p_in):
        # pass 1: reference outcome, counting line events and solver queries
        self.solver.begin({})
        ref, n_events = self.crash.run(call)
        n_q = self.solver.n
        if isinstance(ref[1], (SimCrash, SimInterrupt)):
            raise RuntimeError("injected exception leaked into reference pass")
        if isinstance(ref[1], BaseException) and not isinstance(ref[1], Exception):
            raise ref[1]
        ref_sig = self._outcome_sig(ref)
        kind = fault
        if kind in ("F1", "F2") and n_q == 0:
            kind = "F3c" if self.rng.random() < 0.5 else "F3i"
            self.probes.hit("fault_downgraded_no_solver_query")
        # pass 2: faulted execution
        if kind in ("F1", "F2"):
            q = self.rng.randint(1, n_q)
            self.faults[kind + "_planned"] += 1
            self.solver.begin({q: kind})
            try:
                out2 = ("ret", call())
            except Exception as e:
                out2 = ("exc", e)
            fired = bool(self.solver.fired)
            self.solver.begin({})
            if fired:
                self.faults[kind + "_fired"] += 1
            self.log.log("fault", kind=kind, q=q, fired=fired, o=out2[0])
            if fired and out2[0] == "ret":
                self.probes.hit(f"{kind}_returned")
                # a procedure returned under a degraded/failing solver is held to C01/C04
                from exo.API import Procedure

                r = out2[1][0] if isinstance(out2[1], tuple) else out2[1]
                if isinstance(r, Procedure) and self.sem is not None and p_in is not None and id(p_in) not in self.tainted:
                    self._check_sem(name + f"[{kind}]", r, p_in)
            elif fired:
                self.probes.hit(f"{kind}_raised")
        else:
            k = self.rng.randint(1, max(1, n_events))
            flavour = "interrupt" if kind == "F3i" else "crash"
            self.faults["F3_planned"] += 1
            out2, _ = self.crash.run(call, k=k, exc=make_crash_exc(flavour, f"{name}@{k}"))
            if self.crash.fired:
                self.faults["F3_fired"] += 1
                if not isinstance(out2[1], (SimCrash, SimInterrupt)):
                    self.faults["F3_swallowed"] += 1
                    self.probes.hit("crash_converted_" + (type(out2[1]).__name__ if out2[0] == "exc" else "returned"))
            self.log.log("fault", kind=kind, k=k, fired=self.crash.fired, o=out2[0], at=self.crash.fired_at)
        # purity straight after the faulted execution
        if self.cfg.get("check_pure"):
            for p in procs:
                rec = self.registry.get(id(p))
                if rec is not None:
                    self._verify(rec, f"after-faulted-call[{kind}]", name)
        # pass 3: retry, fault-free
        try:
            out3 = ("ret", call())
        except Exception as e:
            out3 = ("exc", e)
        sig3 = self._outcome_sig(out3)
        if _solver_unknown(ref) or _solver_unknown(out3):
            self.probes.hit("retry_skipped_solver_unknown")
        elif sig3[0] == "exc" and ref_sig[0] == "exc":
            self.probes.hit("retry_same" if sig3 == ref_sig else "retry_exc_class_differs")
        elif sig3 != ref_sig:
            self.violation(
                "C07",
                "retry-after-fault-differs",
                f"{name}: fault-free outcome {ref_sig[:1]} but after an injected {kind} the same call gives {sig3[:1]}"
                f" ({type(out3[1]).__name__ if out3[0]=='exc' else ''}: {str(out3[1])[:200] if out3[0]=='exc' else ''})",
                {"op": name, "sig": "retry-after-fault-differs", "fault": kind[:2]},
            )
        else:
            self.probes.hit("retry_same")
        return out3

    def compile_call(self, what, orig, a, kw):
        if self.depth > 0 or self.cur_test is None:
            return orig(*a, **kw)
        self.depth += 1
        try:
            if self.rng.random() >= self.cfg.get("compile_fault_rate", self.cfg.get("fault_rate", 0.0)):
                return orig(*a, **kw)
            call = lambda: orig(*a, **kw)  # noqa: E731
            ref, n_events = self.crash.run(call)
            if ref[0] == "exc" and not isinstance(ref[1], Exception):
                raise ref[1]
            k = self.rng.randint(1, max(1, n_events))
            flavour = "interrupt" if self.rng.random() < 0.5 else "crash"
            self.faults["compile_F3_planned"] += 1
            out2, _ = self.crash.run(call, k=k, exc=make_crash_exc(flavour, f"{what}@{k}"))
            if self.crash.fired:
                self.faults["compile_F3_fired"] += 1
            self.log.log("compile-fault", k=k, fired=self.crash.fired, at=self.crash.fired_at)
            try:
                out3 = ("ret", orig(*a, **kw))
            except Exception as e:
                out3 = ("exc", e)

            def sig(o):
                return ("exc", type(o[1]).__name__) if o[0] == "exc" else ("ret", hash(str(o[1])))

            if sig(out3)[0] == "exc" and sig(ref)[0] == "exc":
                self.probes.hit("compile_retry_same")
            elif sig(out3) != sig(ref):
                self.violation(
                    "C07",
                    "compile-after-fault-differs",
                    f"{what}: the same procedures compile differently after an injected crash at {self.crash.fired_at}: "
                    f"{sig(ref)[0]} vs {sig(out3)[0]} {str(out3[1])[:200] if out3[0]=='exc' else ''}",
                    {"op": "compile", "sig": "compile-after-fault-differs", "at": (self.crash.fired_at or ["?"])[0],
                     "diff": classify_text_diff(ref[1], out3[1]) if (ref[0] == "ret" and out3[0] == "ret") else "outcome"},
                )
            else:
                self.probes.hit("compile_retry_same")
            if out3[0] == "exc":
                raise out3[1]
            return out3[1]
        finally:
            self.depth -= 1

    # ------------------------------------------------------------------ #
    # oracles evaluated per successful call

    def _check_fwd(self, name, p_in, p_out):
        from .oracles.forwarding import check_forwarding

        chain = [p_in]
        q = p_in._provenance_eq_Procedure
        d = self.cfg.get("fwd_chain", 2)
        while q is not None and len(chain) <= d:
            chain.append(q)
            q = q._provenance_eq_Procedure
        # chains: also forward from a far ancestor chosen by the seed
        for hop, src in enumerate(chain):
            vs = check_forwarding(
                src, p_out, self.probes, max_stmts=self.cfg.get("fwd_max_stmts", 150), rng=None,
                want_gaps=(hop == 0), want_blocks=(hop == 0), chain=chain[:hop],
            )
            if vs and hop > 0:
                old = check_forwarding(src, p_in, Probes(), max_stmts=self.cfg.get("fwd_max_stmts", 150), rng=None,
                                       want_gaps=False, want_blocks=False)
                bad = {repr(v["path"]) for v in old}
                kept = [v for v in vs if repr(v["path"]) not in bad]
                if len(kept) != len(vs):
                    self.probes.hit("fwd_inherited_violation", len(vs) - len(kept))
                vs = kept
            for v in vs[:6]:
                self.violation(
                    "C06",
                    v["sig"],
                    f"after {name} (hop {hop}): {v['detail']} [cursor path {v['path']}]",
                    dict({"op": name, "sig": v["sig"], "stmt": v["stmt_class"]}, **({"attr": v["attr"]} if v.get("attr") else {}),
                         **({"exc": v["exc"]} if v.get("exc") else {})),
                )
            if vs:
                break

    def _check_sem(self, name, p_out, p_in=None):
        from .oracles.semantic import root_of

        root = root_of(p_out)
        if id(root) in self.tainted:
            return
        in_ir = p_in._loopir_proc if p_in is not None else None
        vs = self.sem.check(root._loopir_proc, p_out._loopir_proc, op_name=name.split("[")[0], in_ir=in_ir)
        if vs:
            self.tainted.add(id(p_out))
        for v in vs:
            key = {"op": name, "sig": v["sig"]}
            if v["sig"] == "unbound-use" and p_in is not None:
                from .oracles.validator import binder_kind

                key["binder"] = binder_kind(p_in._loopir_proc, v["detail"].split(" ")[0])
            self.violation(v["prop"], v["sig"], f"after {name}: {v['detail']}", key)
        return
        for v in self.sem.check(root._loopir_proc, p_out._loopir_proc, op_name=name.split("[")[0], in_ir=in_ir):
            self.violation(
                v["prop"], v["sig"], f"after {name}: {v['detail']}", {"op": name, "sig": v["sig"]}
            )

    def _check_valid(self, name, p_in, p_out):
        from .oracles.validator import validate, binder_kind

        bad_in = {x[0] for x in validate(p_in._loopir_proc)}
        for sig, detail, sym in validate(p_out._loopir_proc)[:3]:
            if sig in bad_in:
                self.probes.hit("valid_inherited_" + sig)
                continue
            self.violation(
                "C04", sig, f"after {name}: {detail}",
                {"op": name, "sig": sig, "binder": binder_kind(p_in._loopir_proc, sym)},
            )
            self.tainted.add(id(p_out))

    # ------------------------------------------------------------------ #

    def summary(self):
        return {
            "digest": self.log.digest(),
            "n_events": self.log.n,
            "violations": self.violations,
            "probes": dict(self.probes),
            "faults": self.faults,
            "tests": {k: (v["outcome"], v["calls"]) for k, v in self.tests.items()},
            "failed_tests": {k: v.get("why", "")[-800:] for k, v in self.tests.items() if v["outcome"] == "failed"},
            "test_order": self.test_order,
            "ops": self.ops_seen,
            "calls": self.calls_total,
            "t_oracle": round(self.t_oracle, 2),
            "known_hits": self.known_hits,
            "other_props": self.other_props,
        }


def run_world(arg: dict) -> dict:
    """Child entry: arg = {"seed":…, "cfg":…, "targets":[paths or nodeids]}.
    Runs pytest in-process inside the world and returns World.summary()."""
    global WORLD
    import pytest

    root = repo_root()
    try:  # the repository's tests run with an unrestricted solver (see common.preload)
        import z3

        z3.set_param("rlimit", 0)
        z3.z3._main_ctx = None
    except Exception:
        pass
    w = World(arg["seed"], arg["cfg"])
    WORLD = w
    targets = [t if os.path.isabs(t) else os.path.join(root, t) for t in arg["targets"]]
    os.chdir(root)
    devnull = open(os.devnull, "w")
    old = sys.stdout, sys.stderr
    if not arg.get("verbose"):
        sys.stdout = sys.stderr = devnull
    try:
        rc = pytest.main(
            [
                "-q", "-x" if arg.get("stop_first") else "-q", "-p", "no:cacheprovider", "-p", "sim.pytest_world",
                "--rootdir", root, "-c", os.path.join(root, "pyproject.toml"), "-o", "addopts=", "--no-header",
                "-W", "ignore", "--tb=short",
            ]
            + targets
        )
    finally:
        sys.stdout, sys.stderr = old
        devnull.close()
    s = w.summary()
    s["pytest_rc"] = int(rc)
    WORLD = None
    return s


def replay(data: dict) -> dict:
    """Re-run a recorded harvested world; reports the violation matching the
    recorded key (if it reproduces)."""
    arg = data["arg"]
    key = data.get("expect_key") or {}
    s = run_world(arg)
    cands = list(s["violations"])
    for t, why in s["failed_tests"].items():
        cands.append({"prop": "C07", "sig": "test-fails-in-simulated-world", "detail": why[-600:],
                      "key": {"op": "test", "sig": "test-fails-in-simulated-world", "test": t.split("::")[-1]}, "test": t})
    for v in cands:
        if v["sig"] == key.get("sig") and v["key"].get("op") == key.get("op"):
            return {"violation": v, "digest": s["digest"], "events": None}
    return {"violation": None, "digest": s["digest"], "events": None, "n_violations_other": len(cands)}

"""Survey: run generated sessions with every oracle on, do not stop at the
first violation, list distinct (property, signature, op) with counts and one
example seed.  Used while triaging; not a registered check."""
import sys, time, json, os
sys.path[:0] = ["/verif", os.path.join(os.environ.get("EXO_REPO", "/repo"), "src")]
from collections import Counter
from checks import common, props
common.preload(); common.warmup()
from sim import session
from sim.runner import run_many
from sim.state import reset_exo_globals
from sim.kernel import substream

N = int(sys.argv[1]) if len(sys.argv) > 1 else 400
BASE = int(sys.argv[2]) if len(sys.argv) > 2 else 0
known = []
for p in ("C01","C04","C05","C06","C07","C10"):
    known += common.load_known(p)

def run(seed):
    r = substream(seed, "sv")
    base = {"checks": {"pure": True, "fwd": True, "sem": True, "valid": True}, "compile_rate": 0.08, "compile_fault_rate": 0.5, "survey": True, "known": known}
    k = r.random()
    if k < 0.25: base.update({"configs": True, "weights": props.CONFIG_W})
    elif k < 0.45: base.update({"weights": props.REPLACE_W})
    c = props.swarm(seed, base)
    res = session.generate_and_run(seed, c)
    res["data"] = None
    return res

t = time.time()
recs = run_many(run, range(BASE, BASE + N), workers=16, wall=200, batch=20, reset=reset_exo_globals)
print("runs/s", N / (time.time() - t))
c = Counter(); ex = {}; ops = {}; st = Counter(); kn = Counter()
for r in recs:
    st[r["status"]] += 1
    if r["status"] != "ok":
        print(r["status"], r["arg"], r.get("error"), r.get("trace", "")[-800:]); continue
    x = r["result"]
    for k, (a, b) in x["ops"].items():
        o = ops.setdefault(k, [0, 0]); o[0] += a; o[1] += b
    for k, v in x.get("known_hits", {}).items(): kn[k] += v
    for v in x.get("all_violations", []):
        key = (v["prop"], v["sig"], v["key"]["op"])
        c[key] += 1
        ex.setdefault(key, (r["arg"], v["detail"]))
print(st)
print("never accepted:", sorted(k for k, (a, b) in ops.items() if a == 0), "never proposed:", sorted(set(session.PROPOSERS) - set(ops)))
for k, n in sorted(c.items()): print(n, k, "seed", ex[k][0], "::", ex[k][1][:260])
print("known:", dict(kn))
pr = Counter()
for r in recs:
    if r["status"] == "ok":
        for k, v in r["result"]["probes"].items():
            if k.startswith("soft_") or k.startswith("probe_"):
                pr[k] += v
print("soft probes:", dict(pr))

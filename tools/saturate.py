"""saturate.py <prop> <vseed-list> <n>: run the exact session configuration of a registered session
check (same run seeds as VERIF_SEED=<vseed> would use) in survey mode - all violations of the run, not
only the first - and list the distinct unlisted violation keys with an example run seed.  Used to
triage what a different VERIF_SEED would surface before the budgets are fixed; not a registered check."""
import json, os, sys, time
sys.path[:0] = ["/verif", os.path.join(os.environ.get("EXO_REPO", "/repo"), "src")]
from collections import Counter
from checks import common, props
common.preload(); common.warmup()
from sim import session
from sim.runner import run_many
from sim.state import reset_exo_globals
from sim.kernel import derive_seed

prop = sys.argv[1]
OUT = os.environ.get("SAT_OUT", "/tmp/sat")
vseeds = [int(x) for x in sys.argv[2].split(",")]
n = int(sys.argv[3])
known = common.load_known(prop)
cfg_fn = getattr(props, "cfg_" + prop)


def run(rs):
    cfg = cfg_fn(rs)
    cfg["known"] = known
    cfg["survey"] = True
    res = session.generate_and_run(rs, cfg)
    if not any(v["prop"] == prop for v in res.get("all_violations", [])):
        res["data"] = None
    return res


seeds = []
for v in vseeds:
    seeds += [derive_seed(v, prop, i) % (1 << 40) for i in range(n)]
t = time.time()
recs = run_many(run, seeds, workers=int(os.environ.get("W", "16")), wall=90, batch=25, reset=reset_exo_globals)
c = Counter(); ex = {}; st = Counter()
for r in recs:
    st[r["status"]] += 1
    if r["status"] != "ok":
        print(r["status"], r["arg"], r.get("error"), r.get("trace", "")[-600:]); continue
    for v in r["result"].get("all_violations", []):
        if v["prop"] != prop:
            continue
        key = json.dumps(v["key"], sort_keys=True)
        c[key] += 1
        if key not in ex:
            ex[key] = (r["arg"], v["detail"])
            d = dict(r["result"]["data"])
            d.update({"property": prop, "stop_at_first": False, "signature": v["sig"], "run_seed": r["arg"], "expect_key": v["key"]})
            os.makedirs(OUT, exist_ok=True)
            fn = os.path.join(OUT, f"{prop}-{r['arg']}-{v['sig']}-{v['key'].get('op')}.json")
            json.dump(d, open(fn, "w"), indent=1, default=str)
            ex[key] = (fn, v["detail"])
print(prop, "vseeds", vseeds, "runs", len(seeds), dict(st), "wall", round(time.time() - t))
for k, m in sorted(c.items()):
    print(m, k, "run_seed", ex[k][0], "::", ex[k][1][:300])

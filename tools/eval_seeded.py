"""eval_seeded.py <seeded-dir-name> [...]: apply a seeded change in a scratch
worktree of /repo HEAD, run the property's quick check against it
(EXO_REPO=<worktree>), record the outcome in seeded/<name>/meta.json, remove
the change again."""
import json, os, subprocess, sys, time

VERIF = "/verif"


def sh(cmd, **kw):
    return subprocess.run(cmd, shell=True, capture_output=True, text=True, **kw)


def main():
    for name in sys.argv[1:]:
        d = os.path.join(VERIF, "seeded", name)
        prop = name.split("-")[0]
        wt = f"/tmp/wt_eval_{os.environ.get('EVAL_PROP', prop)}"
        if not os.path.isdir(wt):
            sh(f"git -C /repo worktree add -f {wt} HEAD")
        head = sh("git -C /repo rev-parse HEAD").stdout.strip()
        sh(f"git -C {wt} reset --hard && git -C {wt} checkout --detach {head}")
        r = sh(f"git -C {wt} apply {d}/patch.diff")
        if r.returncode != 0:
            print(name, "patch does not apply:", r.stderr[-300:])
            continue
        mod = "checks." + os.environ.get("EVAL_PROP", prop).lower()
        t0 = time.time()
        env = dict(os.environ, EXO_REPO=wt)
        extra = os.environ.get("EVAL_ARGS", "")
        r = subprocess.run(f"timeout 2400 /venv/bin/python -m {mod} --tier quick {extra}", shell=True, cwd=VERIF, env=env, capture_output=True, text=True)
        out = r.stdout + r.stderr
        viol = [l for l in out.splitlines() if l.startswith("VIOLATION") or l.startswith("  signature")]
        known = [l for l in out.splitlines() if l.startswith("KNOWN-FINDING")]
        sh(f"git -C {wt} checkout -- .")
        meta = {}
        try:
            meta = json.load(open(os.path.join(d, "meta_agent.json")))
        except Exception:
            pass
        res = {
            "property": prop,
            "breaks": meta.get("what"),
            "needs": meta.get("needs"),
            "files_changed": meta.get("files_changed"),
            "agent_tests_run": meta.get("tests_run"),
            "verified_by_me": "patch applies on /repo HEAD (with the fix: commits); demo.py exits non-zero with the patch and 0 without it",
            "what_i_ran": f"git -C <scratch worktree of /repo HEAD> apply patch.diff; EXO_REPO=<worktree> {mod} --tier quick {extra}; git checkout -- .",
            "check_exit": r.returncode,
            "detected": r.returncode == 1 and bool(viol),
            "violation_lines": viol[:8],
            "wall_s": round(time.time() - t0),
            "repo_head": head,
        }
        if os.environ.get("EVAL_PROP") and os.environ["EVAL_PROP"] != prop:
            # cross evaluation: record under "other_checks" without touching the main verdict
            try:
                old = json.load(open(os.path.join(d, "meta.json")))
            except Exception:
                old = {}
            oc = old.get("other_checks", {})
            oc[os.environ["EVAL_PROP"]] = {"detected": res["detected"], "violation_lines": res["violation_lines"][:4], "what_i_ran": res["what_i_ran"]}
            old["other_checks"] = oc
            res = old
        else:
            try:
                res["other_checks"] = json.load(open(os.path.join(d, "meta.json"))).get("other_checks", {})
            except Exception:
                pass
        json.dump(res, open(os.path.join(d, "meta.json"), "w"), indent=1)
        print(name, "exit", r.returncode, "detected" if res["detected"] else "MISSED", viol[:4], f"{res['wall_s']}s", flush=True)
        if r.returncode not in (0, 1):
            print(out[-1500:])


if __name__ == "__main__":
    main()

"""confirm_seeded.py <prop> <A|B> <new-name>: independently confirm a sub-agent's seeded change in its
scratch worktree /tmp/s2wt_<prop> (outside /repo and /verif): the demo passes on the pristine tree and
fails with the patch; the repository's tests (the fast, relevant subset; the 32 ninja-dependent ones are
known failures) give the same result with the patch as without.  On success copies patch, demo and the
agent's description to /verif/seeded/<new-name>/."""
import json, os, shutil, subprocess, sys

TESTS = ("tests/test_schedules.py tests/test_new_eff.py tests/test_config.py tests/test_cursors.py tests/test_internal_cursors.py "
         "tests/test_forwarding.py tests/test_window.py tests/test_halide_ops.py tests/test_parallel.py tests/test_typecheck.py "
         "tests/test_metaprogramming.py tests/test_x86.py tests/test_neon.py tests/test_uast.py tests/test_bounds.py tests/test_precision.py "
         "tests/test_externs.py tests/test_range_analysis.py tests/test_codegen.py")


def sh(cmd, **kw):
    return subprocess.run(cmd, shell=True, capture_output=True, text=True, **kw)


def failures(wt):
    r = sh(f"cd {wt} && PYTHONPATH={wt}/src timeout 3000 /venv/bin/python -m pytest -q -p no:cacheprovider -n 8 --timeout=900 {TESTS} 2>&1 | grep -E '^(FAILED|ERROR)' | sed 's/ - .*//' | sort")
    return r.stdout.split("\n")


def main():
    prop, which, name = sys.argv[1:4]
    wt, out = f"/tmp/s2wt_{prop}", os.environ.get("SEED_OUT", f"/tmp/s2out_{prop}")
    assert sh(f"git -C {wt} status --porcelain").stdout.strip() == "", "worktree not pristine"
    diff, demo = f"{out}/{which}.diff", f"{out}/demo_{which}.py"
    env = f"PYTHONPATH={wt}/src"
    r0 = sh(f"cd {out} && {env} timeout 600 /venv/bin/python {demo}")
    assert sh(f"git -C {wt} apply {diff}").returncode == 0, "patch does not apply"
    try:
        r1 = sh(f"cd {out} && {env} timeout 600 /venv/bin/python {demo}")
        base_file = f"/tmp/s2_baseline_failures.json"
        f1 = failures(wt)
    finally:
        sh(f"git -C {wt} checkout -- . && git -C {wt} clean -fdq src")
    if os.path.exists(base_file):
        f0 = json.load(open(base_file))
    else:
        f0 = failures(wt)
        json.dump(f0, open(base_file, "w"))
    ok = r0.returncode == 0 and r1.returncode != 0 and f0 == f1
    print(name, "demo pristine exit", r0.returncode, "| demo patched exit", r1.returncode, "| test failures pristine/patched", len([x for x in f0 if x]), len([x for x in f1 if x]),
          "same" if f0 == f1 else "DIFFER: " + str(sorted(set(f1) - set(f0))[:5]))
    if not ok:
        print((r0.stdout + r0.stderr)[-600:]); print((r1.stdout + r1.stderr)[-600:])
        return 1
    d = f"/verif/seeded/{name}"
    os.makedirs(d, exist_ok=True)
    shutil.copy(diff, f"{d}/patch.diff"); shutil.copy(demo, f"{d}/demo.py")
    meta = json.load(open(f"{out}/meta_{which}.json"))
    json.dump(meta, open(f"{d}/meta_agent.json", "w"), indent=1)
    json.dump({"property": prop, "breaks": meta.get("what"), "needs": meta.get("needs"), "files_changed": meta.get("files_changed"),
               "agent_tests_run": meta.get("tests_run"),
               "verified_by_me": f"in scratch worktree {wt}: demo exits 0 pristine / {r1.returncode} patched; pytest -n 8 over {len(TESTS.split())} test files gives the same "
                                 f"failure set with and without the patch ({len([x for x in f0 if x])} ninja-dependent failures)",
               "demo_output_patched": (r1.stdout + r1.stderr)[-500:]}, open(f"{d}/meta.json", "w"), indent=1)
    return 0


if __name__ == "__main__":
    sys.exit(main())

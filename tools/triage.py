"""triage.py <seed> <prop> <sig> <op>: regenerate a survey seed, shrink to the
given violation and print program, ops and the last procedures."""
import sys, json, os
sys.path[:0] = ["/verif", os.path.join(os.environ.get("EXO_REPO", "/repo"), "src")]
from checks import common, props, session_check
common.preload(); common.warmup()
from sim import session
from sim.kernel import substream
seed = int(sys.argv[1]); prop, sig, op = sys.argv[2:5]
r = substream(seed, "sv")
base = {"checks": {"pure": True, "fwd": True, "sem": True, "valid": True}, "compile_rate": 0.08, "compile_fault_rate": 0.5, "survey": True}
k = r.random()
if k < 0.25: base.update({"configs": True, "weights": props.CONFIG_W})
elif k < 0.45: base.update({"weights": props.REPLACE_W})
c = props.swarm(seed, base)
res = session.generate_and_run(seed, c)
data = res["data"]; data["props"] = [prop]
# cut ops after the first matching violation
key = {"op": op, "sig": sig, "prop": prop}
data["stop_at_first"] = True
small = session_check.shrink_session(data, key)
S = session.Session(small, log_keep=True)
out = S.run()
print(small["src"])
for o in small["ops"]: print(json.dumps(o)[:260])
print("VIOLATION:", out["violation"])
ids = [k for k in S.procs if k.startswith("r")]
for k in ids[-3:]:
    print("----", k, "<-", S.parent[k]); print(S.procs[k])

"""triage_file.py <session-json> [prop sig op]: shrink a recorded session (from tools/saturate.py or a replay
file) to the named violation and print program, ops and the last procedures."""
import sys, json, os
sys.path[:0] = ["/verif", os.path.join(os.environ.get("EXO_REPO", "/repo"), "src")]
from checks import common, session_check
common.preload(); common.warmup()
from sim import session
data = json.load(open(sys.argv[1]))
key = dict(data.get("expect_key") or {})
prop = data.get("property")
if len(sys.argv) > 4:
    prop, key["sig"], key["op"] = sys.argv[2:5]
key["prop"] = prop
data["props"] = [prop]
data["known"] = common.load_known(prop)
data["stop_at_first"] = False
# cut at first matching violation
S = session.Session(dict(data), log_keep=True)
S.run()
def match(v): return v["prop"] == prop and v["sig"] == key["sig"] and v["key"].get("op") == key["op"]
print("violations in full session:", [(v["prop"], v["sig"], v["key"].get("op")) for v in S.all_viols])
from sim.shrink import ddmin
def test(ops):
    d = dict(data); d["ops"] = ops
    r = session_check._replay_fork(d)
    return bool(r and any(match(v) for v in r.get("all_violations", [])))
ops = ddmin(list(data["ops"]), test, max_tests=80)
small = dict(data); small["ops"] = ops
S = session.Session(small, log_keep=True); out = S.run()
print(small["src"])
for o in ops: print(json.dumps({k: o[k] for k in ("op", "on", "out", "args", "kw", "fault", "stale") if k in o})[:300])
print("VIOLATIONS:", [(v["sig"], v["key"], v["detail"][:300]) for v in S.all_viols])
ids = [k for k in S.procs if k.startswith("r")]
for k in ids[-2:]:
    print("----", k, "<-", S.parent[k])
    try: print(S.procs[k])
    except Exception as e: print("unprintable", e); print(S.procs[k]._loopir_proc)

"""matrix.py: print the seeded-change / check matrix (markdown) from seeded/*/meta.json."""
import glob, json, os, re
rows = []
for d in sorted(glob.glob("/verif/seeded/*")):
    m = json.load(open(os.path.join(d, "meta.json")))
    name = os.path.basename(d)
    what = (m.get("breaks") or "").strip().replace("\n", " ")
    what = re.sub(r"\s+", " ", what)[:150]
    sigs = []
    for l in m.get("violation_lines") or []:
        if "signature" in l:
            try:
                k = json.loads(l.split("signature:", 1)[1])
                sigs.append(f"{k.get('op')}:{k.get('sig')}")
            except Exception:
                pass
    det = "yes" if m.get("detected") else ("**no**" if "detected" in m else "?")
    others = [k for k, v in (m.get("other_checks") or {}).items() if v.get("detected")]
    if others:
        det += " (caught by " + ", ".join(sorted(others)) + ")"
    rows.append(f"| {name} | {', '.join((m.get('files_changed') or ['?']))[:60]} | {what} | {det} | {', '.join(sorted(set(sigs)))[:120]} |")
print("| change | file | what it breaks | caught by the property's quick check | violation signature(s) |")
print("|---|---|---|---|---|")
print("\n".join(rows))

"""Regenerates /verif/MANIFEST.json from the table below (keeps it valid)."""
import json
import os

HERE = os.path.dirname(os.path.dirname(os.path.abspath(__file__)))
PY = "/venv/bin/python"

NA = {
    "C02": "emitted C vs. loop-nest semantics is a predicate of one procedure and its C text, decided by compiling with gcc and comparing executions (translation validation); no schedule, fault, crash point or history enters it",
    "C03": "acceptance by @proc is a pure function of one source text and safety of accepted programs quantifies over inputs only; input fuzzing/SMT territory, nothing to schedule or break",
    "C08": "running compiled C under sanitizers is runtime monitoring of a pure translation; free placement is syntactic; no interleaving/fault dimension",
    "C12": "universally quantified integer identity of index expressions (simplify): SMT/proof territory, a pure function of one expression and its context",
    "C13": "interval containment over all valuations (range analysis): SMT/proof territory, pure function",
    "C14": "intrinsic-vs-specification agreement on the host CPU is differential execution of C, not a property of any schedule, history or fault sequence",
    "C15": "gcc acceptance / annotation rejection is a pure function of one annotated procedure",
    "C16": "pattern matching and cursor navigation are pure functions on immutable trees",
    "C17": "printer/parser round trip is a pure function of one procedure",
    "C19": "single-step signature/annotation changes quantified over programs x inputs only; no history, fault or interleaving dimension (these ops still occur inside claimed sessions incidentally)",
}

CHECKS = {}


def check(pid, module, engine, text, note, technique, design_ref):
    CHECKS[pid] = {
        "property_id": pid,
        "quick_cmd": f"{PY} -m {module} --tier quick",
        "thorough_cmd": f"{PY} -m {module} --tier thorough",
        "evidence_file": f"/verif/evidence/{pid}.json",
        "replay_cmd_template": f"{PY} -m sim.replay {{path}}",
        "engine": engine,
        "level_claimed": {"category": "exploration", "text": text, "design_ref": design_ref},
        "level_note": note,
        "technique": technique,
    }


check(
    "C11",
    "checks.c11",
    "eqv-sim",
    "Seeded search over histories of create/derive/assert/query/forget/gc (and real Procedure-level scheduling calls) "
    "with crash points injected inside the union-find updates; every answer of check_eqv_proc / get_strictest_eqv_proc / "
    "get_repr_proc / Procedure.is_eq is compared with a reference closure computed from the recorded steps; signature "
    "changers (partial_eval, add_assertion, transpose, extracted sub-procedures) must start a new origin. Sampling, not proof: a clean "
    "batch is evidence for histories up to 40 operations over up to 12 procedures and 5 configuration fields.",
    "Trusts the reference model's per-field reading of the statement and Python's weakref/gc semantics as exercised by explicit gc.collect() events.",
    "deterministic simulation: seeded stateful histories + crash-point and GC fault injection against a reference closure model, ddmin-shrunk replay files",
    "DESIGN.md §3 C11",
)


_SESSION_NOTE = (
    "Trusts the reference interpreter (Fractions; validated against gcc-compiled C by sim.xval) and the small-scope "
    "hypothesis (sizes <= 5, histories <= 15 calls, <= 3 faults); about half of the sessions are stratified over (program motif, primitive) pairs. Known findings listed in /verif/known_findings.txt are "
    "reported as KNOWN-FINDING lines and do not fail the check."
)
check(
    "C01", "checks.c01", "session-sim",
    "Seeded search over scheduling histories (generated programs x proposers for all 62 primitives, and the repository's "
    "own tests as harvested sessions) with degraded (F1) and failing (F2) solver verdicts and crash points (F3) injected "
    "into individual calls; after every returned procedure the origin and the derived procedure are run on seeded inputs "
    "in a reference interpreter and final buffers/config compared modulo the config fields Exo reports. Sampling, not proof.",
    _SESSION_NOTE,
    "deterministic simulation: seeded op histories + solver/crash fault injection, differential execution against a reference interpreter, ddmin replay",
    "DESIGN.md §3 C01",
)
check(
    "C04", "checks.c04", "session-sim",
    "Same sessions and fault plans as C01; every reached procedure is checked by a structural scope validator and by the "
    "interpreter's monitors (out-of-bounds, callee assertion/shape, aliasing, negative trip count, uninitialised data "
    "reaching an output the original defined).",
    _SESSION_NOTE,
    "deterministic simulation: seeded op histories + fault injection, structural validator and interpreter safety monitors as invariants",
    "DESIGN.md §3 C04",
)
check(
    "C05", "checks.c05", "session-sim",
    "Histories that produce replaceable blocks (divide/cut/stage) followed by replace with a generated instruction "
    "library and inline; the call is executed from the callee's body in the interpreter and compared with the replaced "
    "statements; assertion/shape/size monitors at the new call site; solver failure injected into unification.",
    _SESSION_NOTE,
    "deterministic simulation: seeded histories ending in replace/inline, differential execution with the callee body, solver fault injection",
    "DESIGN.md §3 C05",
)
check(
    "C06", "checks.c06", "session-sim",
    "After every successful scheduling call of generated and harvested sessions every statement, gap and block cursor of "
    "the input procedure and of up to three ancestors is forwarded; results are judged by object identity of shared IR "
    "nodes (same statement), path resolution (no dangling location), statement class, gap side/anchor and block span; "
    "stale cursors passed to operations are compared with explicitly forwarded ones; after every call that fails or is "
    "interrupted by an injected fault the forwarding maps created by earlier operations are recomputed and must be unchanged.",
    "Trusts that rewritten trees share untouched nodes with their source (identity is only used when the object occurs once in the source tree).",
    "deterministic simulation: seeded op chains with stale cursors, forwarding oracle by IR-node identity evaluated after every call",
    "DESIGN.md §3 C06",
)
check(
    "C07", "checks.c07", "session-sim",
    "Every procedure of a session is structurally fingerprinted at creation and re-checked after every call, successful, "
    "failing or interrupted at an injected crash point / solver fault; each faulted call is followed by the 'user re-runs "
    "the cell' retry which must give the fault-free outcome; compilations are crashed at seeded line events and repeated; "
    "every cursor handed to an operation is snapshotted (procedure, location, resolved node) and re-checked after every later call.",
    "Trusts sys.monitoring LINE events as crash points (a fault inside a C call of z3 is modelled at its return).",
    "deterministic simulation: crash-point / solver fault injection into every call with retry, structural snapshots as invariants",
    "DESIGN.md §3 C07",
)
check(
    "C09", "checks.c09", "par-sim",
    "Programs with par loops at every nesting position (and parallelize_loop after short histories) are offered to the "
    "real back end; accepted ones run in the interpreter with par iterations as tasks under a seeded scheduler; "
    "iteration footprints must be disjoint and every interleaving must give the sequential result.",
    "Trusts the interpreter's task model (yield at every shared access, reduce = read-yield-write); C-only races are out of scope.",
    "deterministic simulation: seeded task scheduler over par-loop iterations at shared-access granularity + footprint conflict monitor",
    "DESIGN.md §3 C09",
)
check(
    "C10", "checks.c10", "session-sim",
    "Sessions over programs that read/write configuration directly and through callees, weighted towards bind_config / "
    "write_config / delete_config / call_eqv and rewrites around config statements; random initial config; buffers must "
    "be equal and every config field whose final value differs must be in the set Exo reports (get_strictest_eqv_proc).",
    _SESSION_NOTE,
    "deterministic simulation: seeded config-heavy histories + solver fault injection, differential execution incl. final config vs reported mod-set",
    "DESIGN.md §3 C10",
)
check(
    "C18", "checks.c18", "worlds",
    "Scripted sessions (generated, and the repository's golden tests) are executed in a baseline world and in worlds "
    "that differ in PYTHONHASHSEED (fresh interpreters), salted id-hashes of Sym/proc/Config/Memory objects, symbol "
    "counter offset, prefix history (other sessions, failed operations, a crashed compilation, unrelated and same-named "
    "definitions) and test order; transcripts (returned/raised, printed procedures, C and header text) must be identical. "
    "Directed process histories add subjects in which two procedures share argument symbols or statement objects "
    "(add_assertion, partial_eval, cut_loop) and discarded compilations / rejected scheduling calls on one of them "
    "precede the scheduling and compilation of the other.",
    "Outcome differences caused by z3 answering `unknown` in one world are not counted.",
    "deterministic simulation: controlled nondeterminism seams (hash salts, hash seeds, symbol offsets, prefix histories) with transcript comparison",
    "DESIGN.md §3 C18",
)

ENGINES = [
    {
        "name": "session-sim",
        "path": "/verif/sim/session.py",
        "serves_properties": ["C01", "C04", "C05", "C06", "C07", "C10"],
        "kind_free_text": "scheduling-session simulator: generated programs + op proposers + harvested repository tests, fault injection (solver F1/F2, crash points F3), oracles evaluated after every call",
    },
    {
        "name": "par-sim",
        "path": "/verif/sim/par_sim.py",
        "serves_properties": ["C09"],
        "kind_free_text": "reference interpreter with par-loop iterations as tasks under a seeded scheduler",
    },
    {
        "name": "worlds",
        "path": "/verif/sim/worlds.py",
        "serves_properties": ["C18"],
        "kind_free_text": "same scripted session replayed in worlds differing in hash seed, id-hash salt, symbol offset, prefix history",
    },
    {
        "name": "eqv-sim",
        "path": "/verif/sim/eqv_sim.py",
        "serves_properties": ["C11"],
        "kind_free_text": "model-based stateful simulation of exo.core.proc_eqv with injected crash points and scheduled GC",
    },
]


def main():
    claimed = sorted(CHECKS)
    man = {
        "version": 1,
        "setup_cmd": f"{PY} -m sim.selfcheck",
        "hooks": {
            "guard": "EXO_VERIF_SIM",
            "enable": "no source hooks: every seam (solver verdicts, id-hash salts, symbol counter, crash points via "
            "sys.monitoring, GC, fork/reset isolation) is installed from /verif by rebinding attributes at run time; the "
            "checks set EXO_VERIF_SIM=1 for themselves only and import exo from /repo/src (working tree)",
            "baseline_off_cmd": "cd /repo && /venv/bin/python -m pytest -ra -q -p no:cacheprovider --timeout=900 --continue-on-collection-errors",
            "source_commits": [],
            "add_only": True,
        },
        "engines": ENGINES,
        "checks": [CHECKS[k] for k in claimed],
        "not_applicable": [{"property_id": k, "reason": v} for k, v in sorted(NA.items()) if k not in CHECKS],
        "notes": "All checks honour VERIF_SEED; exit 0 = held, 1 = VIOLATION lines, 2 = harness error. See DESIGN.md.",
    }
    # properties neither claimed nor n/a yet (being built) are listed as n/a-for-now with that reason
    all_ids = [json.loads(l)["id"] for l in open(os.path.join(HERE, "properties.jsonl"))]
    for pid in all_ids:
        if pid not in CHECKS and pid not in NA:
            man["not_applicable"].append(
                {"property_id": pid, "reason": "simulation target per DESIGN.md, check not yet registered in this commit"}
            )
    man["not_applicable"].sort(key=lambda d: d["property_id"])
    with open(os.path.join(HERE, "MANIFEST.json"), "w") as f:
        json.dump(man, f, indent=1)
    import jsonschema

    jsonschema.validate(man, json.load(open("/root/.vp/MANIFEST.schema.json")))
    print("MANIFEST.json written:", claimed, "n/a:", [d["property_id"] for d in man["not_applicable"]])


if __name__ == "__main__":
    main()

"""Regenerates /verif/MANIFEST.json from the table below (keeps it valid)."""
import json
import os

HERE = os.path.dirname(os.path.dirname(os.path.abspath(__file__)))
PY = "/venv/bin/python"

NA = {
    "C02": "emitted C vs. loop-nest semantics is a predicate of one procedure and its C text, decided by compiling with gcc and comparing executions (translation validation); no schedule, fault, crash point or history enters it",
    "C03": "acceptance by @proc is a pure function of one source text and safety of accepted programs quantifies over inputs only; input fuzzing/SMT territory, nothing to schedule or break",
    "C08": "running compiled C under sanitizers is runtime monitoring of a pure translation; free placement is syntactic; no interleaving/fault dimension",
    "C12": "universally quantified integer identity of index expressions (simplify): SMT/proof territory, a pure function of one expression and its context",
    "C13": "interval containment over all valuations (range analysis): SMT/proof territory, pure function",
    "C14": "intrinsic-vs-specification agreement on the host CPU is differential execution of C, not a property of any schedule, history or fault sequence",
    "C15": "gcc acceptance / annotation rejection is a pure function of one annotated procedure",
    "C16": "pattern matching and cursor navigation are pure functions on immutable trees",
    "C17": "printer/parser round trip is a pure function of one procedure",
    "C19": "single-step signature/annotation changes quantified over programs x inputs only; no history, fault or interleaving dimension (these ops still occur inside claimed sessions incidentally)",
}

CHECKS = {}


def check(pid, module, engine, text, note, technique, design_ref):
    CHECKS[pid] = {
        "property_id": pid,
        "quick_cmd": f"{PY} -m {module} --tier quick",
        "thorough_cmd": f"{PY} -m {module} --tier thorough",
        "evidence_file": f"/verif/evidence/{pid}.json",
        "replay_cmd_template": f"{PY} -m sim.replay {{path}}",
        "engine": engine,
        "level_claimed": {"category": "exploration", "text": text, "design_ref": design_ref},
        "level_note": note,
        "technique": technique,
    }


check(
    "C11",
    "checks.c11",
    "eqv-sim",
    "Seeded search over histories of create/derive/assert/query/forget/gc (and real Procedure-level scheduling calls) "
    "with crash points injected inside the union-find updates; every answer of check_eqv_proc / get_strictest_eqv_proc / "
    "get_repr_proc is compared with a reference closure computed from the recorded steps. Sampling, not proof: a clean "
    "batch is evidence for histories up to 40 operations over up to 12 procedures and 5 configuration fields.",
    "Trusts the reference model's per-field reading of the statement and Python's weakref/gc semantics as exercised by explicit gc.collect() events.",
    "deterministic simulation: seeded stateful histories + crash-point and GC fault injection against a reference closure model, ddmin-shrunk replay files",
    "DESIGN.md §3 C11",
)

ENGINES = [
    {
        "name": "eqv-sim",
        "path": "/verif/sim/eqv_sim.py",
        "serves_properties": ["C11"],
        "kind_free_text": "model-based stateful simulation of exo.core.proc_eqv with injected crash points and scheduled GC",
    },
]


def main():
    claimed = sorted(CHECKS)
    man = {
        "version": 1,
        "setup_cmd": f"{PY} -m sim.selfcheck",
        "hooks": {
            "guard": "EXO_VERIF_SIM",
            "enable": "no source hooks: every seam (solver verdicts, id-hash salts, symbol counter, crash points via "
            "sys.monitoring, GC, fork/reset isolation) is installed from /verif by rebinding attributes at run time; the "
            "checks set EXO_VERIF_SIM=1 for themselves only and import exo from /repo/src (working tree)",
            "baseline_off_cmd": "cd /repo && /venv/bin/python -m pytest -ra -q -p no:cacheprovider --timeout=900 --continue-on-collection-errors",
            "source_commits": [],
            "add_only": True,
        },
        "engines": ENGINES,
        "checks": [CHECKS[k] for k in claimed],
        "not_applicable": [{"property_id": k, "reason": v} for k, v in sorted(NA.items()) if k not in CHECKS],
        "notes": "All checks honour VERIF_SEED; exit 0 = held, 1 = VIOLATION lines, 2 = harness error. See DESIGN.md.",
    }
    # properties neither claimed nor n/a yet (being built) are listed as n/a-for-now with that reason
    all_ids = [json.loads(l)["id"] for l in open(os.path.join(HERE, "properties.jsonl"))]
    for pid in all_ids:
        if pid not in CHECKS and pid not in NA:
            man["not_applicable"].append(
                {"property_id": pid, "reason": "simulation target per DESIGN.md, check not yet registered in this commit"}
            )
    man["not_applicable"].sort(key=lambda d: d["property_id"])
    with open(os.path.join(HERE, "MANIFEST.json"), "w") as f:
        json.dump(man, f, indent=1)
    import jsonschema

    jsonschema.validate(man, json.load(open("/root/.vp/MANIFEST.schema.json")))
    print("MANIFEST.json written:", claimed, "n/a:", [d["property_id"] for d in man["not_applicable"]])


if __name__ == "__main__":
    main()

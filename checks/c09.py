"""C09 - parallel loops that compile are race-free (par-sim)."""
from __future__ import annotations

import json
import sys
import time

from checks import common

MODULE = "checks.c09"
PROP = "C09"


def _reset():
    from sim.state import reset_exo_globals

    reset_exo_globals()


def run_seed(rs: int) -> dict:
    from sim import par_sim
    from sim.kernel import substream

    r = substream(rs, "cfg")
    return par_sim.generate_and_run(rs, {"n_inputs": r.choice([2, 3]), "n_sched": r.choice([4, 8])})


def _replay(data):
    from sim import par_sim

    return par_sim.replay(data)


def shrink(data, sig):
    """Drop scheduling ops, then reduce inputs/schedules tried."""
    from sim.runner import run_one_forked
    from sim.shrink import ddmin

    def test(ops):
        d = dict(data)
        d["ops"] = ops
        r = run_one_forked(_replay, d, wall=120)
        return r["status"] == "ok" and bool(r["result"].get("violation")) and r["result"]["violation"]["sig"] == sig

    ops = data.get("ops") or []
    if len(ops) > 1:
        ops = ddmin(list(ops), test, max_tests=40)
    d = dict(data)
    d["ops"] = ops
    return d


def main():
    common.bootstrap(MODULE)
    args = common.parse_args()
    if args.replay:
        from sim import replay

        sys.exit(replay.main([args.replay]))
    common.preload()
    import sim.par_sim, sim.session, sim.interp, sim.inputs, sim.gen_prog  # noqa: F401,E401

    common.warmup(1)
    if args.digests:
        sys.exit(common.digests_mode(run_seed, args.digests, batch=3, reset=_reset))
    from sim.kernel import base_seed, derive_seed
    from sim.runner import run_one_forked

    seed = base_seed()
    rep = common.Report(PROP, args.tier, seed)
    n_runs = args.runs or (2500 if args.tier == "quick" else 60000)
    budget = args.budget or (75 if args.tier == "quick" else 1200)
    seeds = [derive_seed(seed, PROP, i) % (1 << 40) for i in range(n_runs)]
    ok, info = common.determinism_selftest(MODULE, run_seed, seeds[: (16 if args.tier == "quick" else 60)], args.workers, batch=4, reset=_reset)
    if not ok:
        rep.harness_error("determinism self-test failed: " + json.dumps(info)[:800])
    t0 = time.time()
    recs = common.explore(run_seed, seeds, args.workers, wall=120, budget=budget, batch=10, reset=_reset)
    wall = time.time() - t0
    digests, nontrivial = set(), set()
    probes, faults = {}, {}
    inconclusive = 0
    accepted = 0
    steps = 0
    samples = []
    viols = {}
    for r in recs:
        if r["status"] == "inconclusive":
            inconclusive += 1
            continue
        if r["status"] != "ok":
            rep.harness_error(f"run seed={r['arg']}: {r.get('error')} {r.get('trace', '')[-600:]}")
            continue
        res = r["result"]
        digests.add(res["digest"])
        steps += res["n_events"] + res.get("faults", {}).get("sched_steps", 0)
        for k, v in res["probes"].items():
            probes[k] = probes.get(k, 0) + v
        for k, v in res.get("faults", {}).items():
            faults[k] = faults.get(k, 0) + v
        if res.get("accepted"):
            accepted += 1
            if res["probes"].get("par_multi_iter_instances", 0) > 0:
                nontrivial.add(res["digest"])
        if res.get("data") and not res.get("violation") and len(samples) < 3:
            samples.append({"run_seed": r["arg"], "src": res["data"]["src"], "ops": [o["op"] for o in res["data"]["ops"]], "accepted": res.get("accepted")})
        v = res.get("violation")
        if v:
            k = rep.classify(v["key"])
            if k:
                rep.note_known(k)
                continue
            kj = json.dumps(v["key"], sort_keys=True)
            if kj not in viols:
                viols[kj] = (r["arg"], res)
    for kj, (rs, res) in sorted(viols.items()):
        key = json.loads(kj)
        v = res["violation"]
        data = shrink(res["data"], v["sig"])
        fin = run_one_forked(_replay, data, wall=120)
        finv = fin["result"].get("violation") if fin["status"] == "ok" else None
        data = dict(data)
        data.update({"property": PROP, "run_seed": rs, "verif_seed": seed, "signature": v["sig"], "violation": finv or v})
        path = common.write_replay(PROP, str(rs), data)
        okc, out = common.confirm_replay_fresh(path, v["sig"])
        if not okc:
            rep.harness_error(f"replay {path} did not reproduce in a fresh interpreter: {out[-300:]}")
            continue
        rep.violation(key, path)
    done = len(recs) - inconclusive
    if recs and inconclusive > 0.05 * len(recs):
        rep.harness_error(f"{inconclusive}/{len(recs)} runs inconclusive")
    if not samples:
        samples.append({"note": "no sample retained"})
    coverage = {
        "evaluations": done,
        "distinct_nontrivial": len(nontrivial),
        "rule": "one evaluation = one generated program with par loops (written, or obtained by parallelize_loop after a "
        "short scheduling history) offered to the real back end; accepted ones are executed on 2-3 inputs, sequentially "
        "and under 4-8 seeded interleavings of the par iterations; distinct = distinct event-log digest; non-trivial = the "
        "program compiled and at least one par-loop instance had more than one iteration",
        "samples": samples,
        "programs_accepted_by_compiler": accepted,
        "runs_per_hour": int(done / max(wall, 1e-6) * 3600),
        "logical_steps": steps,
        "simulated_time": "no clock in exo; time is logical steps (scheduler decisions + log events)",
        "fault_kinds_fired": {"interleavings_executed": faults.get("interleavings", 0), "scheduler_decisions": faults.get("sched_steps", 0)},
        "probes": probes,
        "inconclusive_runs": inconclusive,
        "determinism_selftest": info,
        "components": {
            "exo front end, scheduling, ParallelAnalysis / Check_ParallelizeLoop, code generation": "real code from /repo/src",
            "OpenMP runtime / CPU": "stub: reference interpreter with iterations of par loops as generator tasks and a seeded scheduler",
        },
    }
    sys.exit(rep.finish(coverage, assumptions=[
        "a reduce is read-yield-write (OpenMP gives no atomicity); allocations inside a par body are private per iteration",
        "races that exist only in C (a static/register memory allocated inside a par body) are outside this check",
    ]))


if __name__ == "__main__":
    main()

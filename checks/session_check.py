"""Shared driver of the session-simulator checks (C01 C04 C05 C06 C07 C10).

Each property's module supplies: which oracles are on, the op/program mix, the
fault mix and budgets.  The driver runs
  1. the determinism self-test,
  2. generated sessions (one forked child per session),
  3. harvested sessions (repository tests inside simulated worlds, sharded),
then de-duplicates violations by key, matches them against the known-findings
file, shrinks (ddmin over ops, then faults), writes the replay file, confirms
it in a fresh interpreter and prints VIOLATION lines.
"""
from __future__ import annotations

import copy
import json
import sys
import time

from checks import common


def _strip(res):
    if not res.get("violation"):
        res["data"] = None
    return res


def make_runner(prop, cfg_fn, known=None):
    known = known if known is not None else common.load_known(prop)

    def run_seed(run_seed: int) -> dict:
        from sim import session

        cfg = cfg_fn(run_seed)
        cfg["known"] = known
        res = session.generate_and_run(run_seed, cfg)
        res["engine"] = "session"
        res["n_ops"] = sum(a + b for a, b in res.get("ops", {}).values())
        keep_sample = run_seed % 211 == 0
        if not res.get("violation") and not keep_sample:
            res["data"] = None
        elif res.get("data") and not res.get("violation"):
            d = res["data"]
            res["sample"] = {"src": d["src"], "ops": [(o["op"], o["on"], bool(o.get("fault"))) for o in d["ops"]]}
            res["data"] = None
        return res

    return run_seed


def _reset():
    from sim.state import reset_exo_globals

    reset_exo_globals()


def replay_session(data):
    from sim import session

    return session.replay(data)


def _replay_fork(data, wall=180):
    from sim.runner import run_one_forked

    r = run_one_forked(replay_session, data, wall=wall)
    return r["result"] if r["status"] == "ok" else None


def shrink_session(data, key):
    from sim.shrink import ddmin

    def same(res):
        v = res and res.get("violation")
        return bool(v and v["key"].get("op") == key.get("op") and v["sig"] == key.get("sig") and v["prop"] == key.get("prop", v["prop"]))

    def test(ops):
        d = dict(data)
        d["ops"] = ops
        return same(_replay_fork(d))

    ops = ddmin(list(data["ops"]), test, max_tests=60)
    # drop faults / stale flags that are not needed
    for i in range(len(ops)):
        for fld in ("fault",):
            if ops[i].get(fld):
                cand = copy.deepcopy(ops)
                cand[i].pop(fld)
                if test(cand):
                    ops = cand
    d = dict(data)
    d["ops"] = ops
    return d


def run_check(module, prop, cfg_fn, harvest_cfgs, args, budgets, notes):
    """budgets: {"quick": {...}, "thorough": {...}} with keys runs, budget_s,
    selftest, harvest_files, harvest_shards."""
    common.preload()
    import sim.session, sim.harvest, sim.gen_prog, sim.interp, sim.inputs  # noqa: F401,E401
    import sim.oracles.semantic, sim.oracles.forwarding, sim.oracles.validator  # noqa: F401,E401
    from sim.kernel import base_seed, derive_seed
    from sim import harvest
    from sim.runner import run_many, run_one_forked

    common.warmup()
    run_seed = make_runner(prop, cfg_fn)
    if args.digests:
        return common.digests_mode(run_seed, args.digests, wall=90, batch=3, reset=_reset)
    seed = base_seed()
    rep = common.Report(prop, args.tier, seed)
    B = budgets[args.tier]
    n_runs = args.runs or B["runs"]
    budget = args.budget or B["budget_s"]
    seeds = [derive_seed(seed, prop, i) % (1 << 40) for i in range(n_runs)]

    ok, info = common.determinism_selftest(
        module, run_seed, seeds[: B["selftest"]], args.workers, wall=90, batch=4, reset=_reset
    )
    if not ok:
        rep.harness_error("determinism self-test failed: " + json.dumps(info)[:900])

    # ---- generated sessions ------------------------------------------- #
    t0 = time.time()
    recs = common.explore(run_seed, seeds, args.workers, wall=90, budget=budget, batch=B.get("batch", 25), reset=_reset)
    wall_gen = time.time() - t0

    digests, nontrivial = set(), set()
    agg = {"probes": {}, "faults": {}, "ops": {}, "known": {}, "other": {}}
    inconclusive = 0
    steps = 0
    samples = []
    viols = {}  # key-json -> (run_seed, result)

    def addto(d, src):
        for k, v in (src or {}).items():
            d[k] = d.get(k, 0) + v

    for r in recs:
        if r["status"] == "inconclusive":
            inconclusive += 1
            continue
        if r["status"] != "ok":
            rep.harness_error(f"run seed={r['arg']}: {r.get('error')} {r.get('trace', '')[-700:]}")
            continue
        res = r["result"]
        digests.add(res["digest"])
        steps += res["n_events"]
        addto(agg["probes"], res["probes"])
        addto(agg["faults"], res["faults"])
        addto(agg["known"], res.get("known_hits"))
        addto(agg["other"], res.get("other_props"))
        for k, (a, b) in res.get("ops", {}).items():
            o = agg["ops"].setdefault(k, [0, 0])
            o[0] += a
            o[1] += b
        acc = sum(a for a, b in res.get("ops", {}).values())
        if acc > 0 and (res["probes"].get("sem_compared", 0) + res["probes"].get("fwd_returned", 0) + res["probes"].get("pure_checked", 0)) > 0:
            nontrivial.add(res["digest"])
        if res.get("sample") and len(samples) < 3:
            samples.append({"run_seed": r["arg"], **res["sample"]})
        v = res.get("violation")
        if v and v["prop"] == prop:
            kj = json.dumps({**v["key"], "prop": prop}, sort_keys=True)
            if kj not in viols:
                viols[kj] = (r["arg"], res)

    # ---- harvested sessions -------------------------------------------- #
    hv_summary = {"worlds": 0, "tests": 0, "calls": 0, "failed_tests": 0}
    hv_viol = {}
    t1 = time.time()
    hv_args = []
    for wi, hc in enumerate([] if getattr(args, 'no_harvest', False) else harvest_cfgs(args.tier, seed)):
        files = hc.pop("files")
        nsh = hc.pop("shards")
        for f in files:
            for k in range(nsh if f.endswith("test_schedules.py") else 1):
                c = dict(hc)
                if f.endswith("test_schedules.py") and nsh > 1:
                    c["shard"] = [k, nsh]
                c["props"] = [prop]
                c["known"] = rep.known
                hv_args.append({"seed": derive_seed(seed, prop, "hv", wi), "cfg": c, "targets": [f]})
    hv_recs = run_many(harvest.run_world, hv_args, workers=args.workers, wall=B.get("harvest_wall", 600)) if hv_args else []
    wall_hv = time.time() - t1
    for r in hv_recs:
        if r["status"] == "inconclusive":
            inconclusive += 1
            continue
        if r["status"] != "ok":
            rep.harness_error(f"harvest {r['arg']['targets']}: {r.get('error')} {r.get('trace', '')[-700:]}")
            continue
        s = r["result"]
        hv_summary["worlds"] += 1
        hv_summary["tests"] += len(s["tests"])
        hv_summary["calls"] += s["calls"]
        hv_summary["failed_tests"] += len(s["failed_tests"])
        digests.add(s["digest"])
        if s["calls"] > 0:
            nontrivial.add(s["digest"])
        steps += s["n_events"]
        addto(agg["probes"], s["probes"])
        addto(agg["faults"], s["faults"])
        addto(agg["known"], s.get("known_hits"))
        addto(agg["other"], s.get("other_props"))
        for k, (a, b) in s.get("ops", {}).items():
            o = agg["ops"].setdefault(k, [0, 0])
            o[0] += a
            o[1] += b
        for t, why in s["failed_tests"].items():
            # a repository test that fails inside a fault-free-continuation world:
            # the retry discipline should have made the fault invisible
            if prop == "C07":
                v = {"prop": "C07", "sig": "test-fails-in-simulated-world", "detail": why[-600:],
                     "key": {"op": "test", "sig": "test-fails-in-simulated-world", "test": t.split("::")[-1], "engine": "harvest"}, "test": t}
                s["violations"].append(v)
        for v in s["violations"]:
            if v["prop"] != prop:
                continue
            kj = json.dumps({**v["key"], "prop": prop}, sort_keys=True)
            if kj not in hv_viol:
                hv_viol[kj] = (r["arg"], v)
        if len(samples) < 4 and s["tests"]:
            t = sorted(s["tests"])[0]
            samples.append({"harvested_test": t, "calls": s["tests"][t][1], "world": {k: r["arg"]["cfg"].get(k) for k in ("salt", "sym_offset", "shuffle", "fault_rate")}})

    for text, n in agg["known"].items():
        rep.known_hits[text] = rep.known_hits.get(text, 0) + n

    # ---- violations: shrink, write replay, confirm --------------------- #
    for kj, (rs, res) in sorted(viols.items()):
        key = json.loads(kj)
        data = res["data"]
        data["property"] = prop
        small = shrink_session(data, {**key, "prop": prop}) if len(viols) <= 6 else data
        fin = _replay_fork(small) or res
        small = dict(small)
        small.update({"property": prop, "run_seed": rs, "verif_seed": seed, "signature": key["sig"],
                      "violation": fin.get("violation") or res["violation"], "original_ops": len(data["ops"])})
        path = common.write_replay(prop, f"{rs}", small)
        okc, out = common.confirm_replay_fresh(path, key["sig"])
        if not okc:
            rep.harness_error(f"replay {path} did not reproduce in a fresh interpreter: {out[-300:]}")
            continue
        rep.violation(key, path)
    for kj, (arg, v) in sorted(hv_viol.items()):
        key = json.loads(kj)
        data = {"engine": "harvest", "property": prop, "arg": arg, "signature": key["sig"], "violation": v, "expect_key": key}
        # minimise: the single test, if that reproduces
        one = copy.deepcopy(arg)
        one["cfg"]["only_tests"] = [v.get("test")]
        one["cfg"].pop("shard", None)
        from sim.harvest import replay as hv_replay

        r1 = run_one_forked(hv_replay, {"arg": one, "expect_key": key}, wall=600)
        if r1["status"] == "ok" and r1["result"].get("violation"):
            data["arg"] = one
        path = common.write_replay(prop, "hv-" + str(abs(hash(kj)) % 10**10), data)
        okc, out = common.confirm_replay_fresh(path, key["sig"], timeout=900)
        if not okc:
            rep.harness_error(f"harvest replay {path} did not reproduce in a fresh interpreter: {out[-300:]}")
            continue
        rep.violation(key, path)

    done = len(recs) + len(hv_recs) - inconclusive
    total = len(recs) + len(hv_recs)
    if total and inconclusive > 0.05 * total:
        rep.harness_error(f"{inconclusive}/{total} runs inconclusive")
    never = sorted(k for k, (a, b) in agg["ops"].items() if a == 0)
    if not samples:
        samples.append({"note": "no sample retained"})
    coverage = {
        "evaluations": done,
        "distinct_nontrivial": len(nontrivial),
        "rule": "one evaluation = one simulated session: either a generated program with a seeded history of scheduling "
        "calls (each possibly carrying an injected fault) or one shard of the repository's tests run inside a simulated "
        "world; distinct = distinct event-log digest; non-trivial = at least one scheduling call was accepted and at "
        "least one oracle comparison was made",
        "samples": samples,
        "generated_sessions": len(recs),
        "generated_sessions_per_hour": int(len(recs) / max(wall_gen, 1e-6) * 3600),
        "harvested": {**hv_summary, "wall_s": round(wall_hv, 1)},
        "logical_steps": steps,
        "simulated_time": "exo has no clock; time is logical steps (API calls / log events), see logical_steps",
        "fault_kinds_fired": agg["faults"],
        "probes": agg["probes"],
        "ops_accepted_rejected": agg["ops"],
        "ops_never_accepted": never,
        "violations_of_other_properties_seen": agg["other"],
        "inconclusive_runs": inconclusive,
        "determinism_selftest": info,
        "components": {
            "exo front end, scheduling, effect analysis, unification, forwarding, equivalence tracking, code generation": "real code from /repo/src (working tree)",
            "z3 / pysmt": "real, except on the queries the fault plan names (F1 degraded verdict, F2 failure)",
            "execution of procedures": "stub: reference interpreter /verif/sim/interp.py (Fractions)",
            "crash points": "simulated: sys.monitoring LINE event k inside exo source files",
            "hash order / symbol counter / test order": "simulated in harvested worlds (salted id-hashes, Sym offset, seeded shuffle)",
        },
    }
    coverage.update(notes or {})
    return rep.finish(
        coverage,
        assumptions=[
            "reference interpreter implements LoopIR semantics (validated against gcc-compiled C by sim.xval)",
            "small-scope hypothesis: sizes <= 5, histories <= 12 calls, <= 3 faults per history",
            "explicitly unsafe operations/flags are excluded from the semantic oracles",
        ],
    )

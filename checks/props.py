"""Per-property configuration of the session simulator."""
from __future__ import annotations

from sim.kernel import substream

ALL_FAULTS = ["F3c", "F3i", "F1", "F2"]
CORE = ["tests/test_schedules.py", "tests/test_config.py", "tests/test_new_eff.py", "tests/test_cursors.py",
        "tests/test_window.py", "tests/test_halide_ops.py", "tests/test_forwarding.py", "tests/test_parallel.py"]
MORE = ["tests/test_codegen.py", "tests/test_externs.py", "tests/test_precision.py", "tests/test_x86.py",
        "tests/test_neon.py", "tests/test_range_analysis.py", "tests/test_bounds.py"]
HEAVY = ["tests/test_apps.py", "tests/test_examples.py", "tests/asplos25", "tests/amx", "tests/test_im2col.py"]


def swarm(run_seed, base):
    """Per-run variation of knobs (swarm style)."""
    r = substream(run_seed, "swarm")
    c = dict(base)
    # stratified sessions: about half of the runs are assigned one (motif, primitive) pair so that every
    # pair is exercised by several sessions per run instead of being left to the uniform draw
    rs_ = substream(run_seed, "stratum")
    if rs_.random() < base.get("stratum_rate", 0.5):
        from sim.gen_prog import G

        st = [x for x in G.strata(with_cfg=bool(base.get("configs")), generic=base.get("strata_generic", True))
              if not base.get("ops") or x[1] in base["ops"]]
        if base.get("strata_ops"):
            st = [x for x in st if x[1] in base["strata_ops"]]
        foc = base.get("strata_focus")
        if foc and rs_.random() < 0.5:
            st = [x for x in st if x[1] == foc] or st
        if st:
            c["stratum"] = list(rs_.choice(st))
    c["configs"] = base.get("configs", r.random() < 0.35)
    c["par"] = base.get("par", r.random() < 0.2)
    c["max_ops"] = r.choice([5, 8, 12])
    c["min_ops"] = 3
    fr = base.get("fault_rates", [0.0, 0.15, 0.3])
    c["fault_rate"] = r.choice(fr)
    c["stale_rate"] = r.choice(base.get("stale_rates", [0.0, 0.15, 0.35]))
    kinds = base.get("fault_kinds", ALL_FAULTS)
    # enable a random non-empty subset of fault kinds per run
    sub = [k for k in kinds if r.random() < 0.6] or [r.choice(kinds)]
    c["fault_kinds"] = sub
    return c


CONFIG_W = {"bind_config": 6, "write_config": 6, "delete_config": 6, "call_eqv": 4, "reorder_stmts": 3, "fission": 2,
            "fuse": 2, "inline": 3, "lift_scope": 2, "simplify": 2, "rename": 2, "divide_loop": 2}
REPLACE_W = {"replace": 10, "divide_loop": 6, "cut_loop": 2, "unroll_loop": 2, "stage_mem": 3, "inline": 5,
             "extract_subproc": 3, "simplify": 2, "reorder_loops": 2, "fission": 2, "set_memory": 1}


# primitives with non-trivial semantic side conditions get more of the draws in the semantic checks;
# pure annotation changes (their semantics is C19 territory) fewer
SEM_W = {
    "fission": 3, "fuse": 3, "reorder_stmts": 3, "reorder_loops": 3, "lift_scope": 2, "stage_mem": 3, "resize_dim": 3,
    "expand_dim": 3, "divide_loop": 2, "cut_loop": 2, "join_loops": 2, "shift_loop": 2, "remove_loop": 2, "add_loop": 2,
    "inline_assign": 2, "merge_writes": 2, "fold_into_reduce": 2, "lift_reduce_constant": 2, "sink_alloc": 2, "lift_alloc": 2,
    "delete_buffer": 2, "reuse_buffer": 2, "unroll_buffer": 2, "bind_expr": 2, "delete_pass": 1, "eliminate_dead_code": 2,
    "specialize": 2, "rewrite_expr": 2, "mult_loops": 2, "divide_with_recompute": 2, "replace": 2, "call_eqv": 2, "inline": 2,
    "extract_subproc": 2, "divide_dim": 2, "mult_dim": 2, "rearrange_dim": 2, "inline_window": 2, "unroll_loop": 2, "split_write": 2,
    "rename": 0.3, "make_instr": 0.3, "set_memory": 0.5, "set_precision": 0.3, "set_window": 0.5, "insert_pass": 0.5,
    "parallelize_loop": 0.5, "commute_expr": 0.5, "left_reassociate_expr": 0.5, "insert_noop_call": 0.5,
}


def cfg_C07(rs):
    return swarm(rs, {"checks": {"pure": True}, "props": ["C07"], "fault_rates": [0.0, 0.25, 0.45], "compile_rate": 0.15,
                      "compile_fault_rate": 0.6, "query_rate": 0.12})


def cfg_C06(rs):
    return swarm(rs, {"checks": {"fwd": True}, "props": ["C06"], "fault_rates": [0.0, 0.0, 0.15], "stale_rates": [0.2, 0.4],
                      "fault_kinds": ["F3c", "F3i", "F2"]})


def cfg_C01(rs):
    return swarm(rs, {"checks": {"sem": True}, "props": ["C01"], "fault_rates": [0.0, 0.2, 0.35], "fault_kinds": ["F1", "F2", "F3c"],
                      "call_eqv_macro": 0.1, "weights": SEM_W, "strata_generic": False, "stratum_rate": 0.7})


def cfg_C04(rs):
    return swarm(rs, {"checks": {"sem": True, "valid": True}, "props": ["C04"], "fault_rates": [0.0, 0.2], "compile_rate": 0.05,
                      "fault_kinds": ["F1", "F2", "F3c"], "weights": SEM_W, "strata_generic": False, "stratum_rate": 0.7})


def cfg_C10(rs):
    return swarm(rs, {"checks": {"sem": True}, "props": ["C10"], "configs": True, "weights": CONFIG_W, "fault_rates": [0.0, 0.2],
                      "fault_kinds": ["F1", "F2", "F3c"], "call_eqv_macro": 0.35, "strata_ops": sorted(CONFIG_W)})


def cfg_C05(rs):
    return swarm(rs, {"checks": {"sem": True}, "props": ["C05"], "weights": REPLACE_W, "fault_rates": [0.0, 0.15],
                      "fault_kinds": ["F2", "F3c"], "ops": sorted(REPLACE_W), "strata_focus": "replace", "stratum_rate": 0.6})


def harvest_cfgs_for(prop):
    def f(tier, seed):
        r = substream(seed, "hv", prop)
        base = {"salt": r.getrandbits(48), "sym_offset": r.randint(0, 5000), "shuffle": True}
        if prop == "C07":
            base.update({"check_pure": True, "faults": ALL_FAULTS, "fault_rate": 0.3, "compile_fault_rate": 0.5})
        elif prop == "C06":
            base.update({"check_fwd": True})
        elif prop in ("C01", "C10", "C05"):
            base.update({"check_sem": True, "faults": ["F1", "F2"], "fault_rate": 0.25, "fault_compile": False})
        elif prop == "C04":
            base.update({"check_sem": True, "check_valid": True, "faults": ["F1"], "fault_rate": 0.15, "fault_compile": False})
        files = list(CORE)
        if prop in ("C10",):
            files = ["tests/test_config.py", "tests/test_new_eff.py", "tests/test_schedules.py"]
        out = [dict(base, files=files, shards=10)]
        if tier == "thorough":
            for k in range(2):
                b2 = dict(base, salt=r.getrandbits(48), sym_offset=r.randint(0, 5000))
                out.append(dict(b2, files=files + MORE, shards=10))
            out.append(dict(base, files=HEAVY, shards=1))
        return out

    return f


BUDGETS = {
    "quick": {"runs": 12000, "budget_s": 100, "selftest": 16, "harvest_wall": 400},
    "thorough": {"runs": 150000, "budget_s": 1500, "selftest": 40, "harvest_wall": 2400},
}

"""C18 - scheduling and compilation are deterministic: the same scripted session
is replayed in many worlds (hash seed, id-hash salt, Sym offset, prefix history,
definition order) and the transcripts must be byte-identical."""
from __future__ import annotations

import json
import os
import sys
import time

from checks import common

MODULE = "checks.c18"
PROP = "C18"
HASHSEEDS = {"quick": [0, 1, 4242], "thorough": [0, 1, 7, 99, 4242, 31337]}


def _reset():
    from sim.state import reset_exo_globals

    reset_exo_globals()


def _record(rs):
    from sim import worlds
    from sim.kernel import substream

    r = substream(rs, "c18cfg")
    extra = {}
    if r.random() < 0.6:
        extra["closing_ops"] = ["inline", "inline_window", "simplify"]
    if r.random() < 0.5:
        from sim.gen_prog import G

        extra["stratum"] = list(r.choice(G.strata(with_cfg=False, generic=False)))
    d = worlds.record_session(rs, {**extra, "configs": r.random() < 0.4, "par": r.random() < 0.2, "max_ops": r.choice([4, 7, 10]), "min_ops": 3,
                                   "weights": {"inline": 5, "inline_window": 4, "simplify": 5, "replace": 3, "divide_loop": 3, "extract_subproc": 3,
                                               "unroll_buffer": 3, "set_memory": 2, "bind_expr": 2, "stage_mem": 2}})
    return {"data": d, "digest": "rec"}


def mk_world(r, hs_idx):
    from sim import worlds

    return {
        "salt": r.getrandbits(48) if r.random() < 0.8 else None,
        "sym_offset": r.choice([0, 1, 17, 1000, 54321]),
        "sym_align": r.choice([0, 0, 3, 8, 15, 25, 40, 70]),
        "sym_align_u": r.random() if r.random() < 0.5 else None,
        "noise": r.random() < 0.4,
        "prefix": r.choice(worlds.PREFIX_KINDS),
        "n_prefix": r.choice([1, 2, 3]),
        "seed": r.getrandbits(30),
    }


def main():
    common.bootstrap(MODULE)
    args = common.parse_args()
    if args.replay:
        from sim import replay

        sys.exit(replay.main([args.replay]))
    common.preload()
    import sim.worlds, sim.session, sim.harvest  # noqa: F401,E401

    common.warmup(2)
    from sim import worlds, harvest
    from sim.kernel import base_seed, derive_seed, substream
    from sim.runner import run_many

    seed = base_seed()
    rep = common.Report(PROP, args.tier, seed)
    quick = args.tier == "quick"
    n_sessions = args.runs or (90 if quick else 900)
    n_worlds = 3 if quick else 6
    hashseeds = HASHSEEDS[args.tier]
    t0 = time.time()
    rseeds = [derive_seed(seed, PROP, i) % (1 << 40) for i in range(n_sessions)]
    recs = run_many(_record, rseeds, workers=args.workers, wall=120, batch=10, reset=_reset)
    sessions = []
    for r in recs:
        if r["status"] == "ok" and r["result"]["data"] and r["result"]["data"].get("ops"):
            sessions.append((r["arg"], r["result"]["data"]))
    # jobs per interpreter
    per_hs = {h: [] for h in hashseeds}
    meta = {}
    for si, (rs, data) in enumerate(sessions):
        r = substream(rs, "worlds")
        jid = f"s{si}-base"
        per_hs[hashseeds[0]].append({"id": jid, "data": data, "world": {"salt": None, "sym_offset": 0, "prefix": "none", "seed": 0}})
        meta[jid] = (si, None, hashseeds[0])
        for wi in range(n_worlds):
            h = hashseeds[(si + wi) % len(hashseeds)]
            w = mk_world(r, wi)
            jid = f"s{si}-w{wi}"
            per_hs[h].append({"id": jid, "data": data, "world": w})
            meta[jid] = (si, w, h)
    # directed process histories (sim/directed.py): subjects that share argument Syms / statement
    # objects with procedures on which discarded calls were made earlier in the process
    from sim import directed

    n_directed = 0 if os.environ.get("VERIF_C18_NODIRECTED") else (30 if quick else 300)
    base_world = {"salt": None, "sym_offset": 0, "prefix": "none", "seed": 0}
    for di in range(n_directed):
        ds = derive_seed(seed, "c18-directed", di) % (1 << 40)
        dd = directed.generate(ds)
        dd["tmpl"] = directed.TEMPLATES[di % len(directed.TEMPLATES)]  # every template in every run
        data = {"directed": dd, "ops": [], "src": directed.source(dd)}
        si = len(sessions)
        sessions.append((ds, data))
        r = substream(ds, "directed-worlds")
        jid = f"s{si}-base"
        per_hs[hashseeds[0]].append({"id": jid, "data": data, "world": dict(base_world)})
        meta[jid] = (si, None, hashseeds[0])
        for wi in range(n_worlds):
            h = hashseeds[(si + wi) % len(hashseeds)]
            w = dict(base_world, history=directed.gen_history(r), prefix="directed")
            if wi % 3 == 2:
                w.update(salt=r.getrandbits(48), sym_offset=r.choice([1, 17, 1000]))
            jid = f"s{si}-w{wi}"
            per_hs[h].append({"id": jid, "data": data, "world": w})
            meta[jid] = (si, w, h)
    # harvested worlds: repository tests under salt / offset / shuffle / hash seed
    hv_files = ["tests/test_schedules.py", "tests/test_config.py", "tests/test_codegen.py"]
    if os.environ.get("VERIF_C18_NOHV"):
        hv_files = []
    elif not quick:
        hv_files += ["tests/test_new_eff.py", "tests/test_window.py"]
    if not quick and not os.environ.get("VERIF_C18_NOHV"):
        hv_files += ["tests/test_cursors.py", "tests/test_halide_ops.py", "tests/test_x86.py", "tests/test_neon.py", "tests/test_externs.py",
                     "tests/test_precision.py", "tests/test_parallel.py", "tests/test_examples.py", "tests/asplos25", "tests/amx"]
    rh = substream(seed, "c18-hv")
    for hi, h in enumerate(hashseeds[1:2] if quick else hashseeds):
        cfg = {"salt": rh.getrandbits(48), "sym_offset": rh.choice([3, 999, 77777]), "shuffle": True, "props": [PROP], "known": []}
        for f in hv_files:
            nsh = (4 if quick else 8) if f.endswith("test_schedules.py") else 1
            for k in range(nsh):
                c = dict(cfg)
                if nsh > 1:
                    c["shard"] = [k, nsh]
                jid = f"hv{hi}-{os.path.basename(f)}-{k}"
                per_hs[h].append({"id": jid, "kind": "harvest", "hv": {"seed": derive_seed(seed, "c18hv", hi), "cfg": c, "targets": [f]}})
                meta[jid] = ("hv", c, h)
    results = {}
    errs = []
    wk = max(2, args.workers // max(1, len(hashseeds)))
    # run the interpreters concurrently
    import concurrent.futures as cf

    with cf.ThreadPoolExecutor(max_workers=len(hashseeds)) as ex:
        futs = {ex.submit(worlds.run_in_interpreter, per_hs[h], h, wk, 6000 if not quick else 1500): h for h in hashseeds}
        for fu in cf.as_completed(futs):
            out, err = fu.result()
            if out is None:
                errs.append(f"interpreter PYTHONHASHSEED={futs[fu]} failed: {err[-400:]}")
                continue
            for o in out["results"]:
                results[o["id"]] = o
    for e in errs:
        rep.harness_error(e)
    wall = time.time() - t0

    # compare
    n_eval = 0
    digests = set()
    nontrivial = set()
    inconclusive = 0
    prefix_counts = {}
    z3_unknown = 0
    viols = {}
    samples = []
    hv_tests = hv_worlds = hv_calls = 0
    for jid, o in results.items():
        si, w, h = meta[jid]
        if o["status"] != "ok":
            if o["status"] == "inconclusive":
                inconclusive += 1
            else:
                rep.harness_error(f"job {jid}: {o.get('error')}")
            continue
        n_eval += 1
        if si == "hv":
            hv_worlds += 1
            hv_tests += o.get("n_tests", 0)
            hv_calls += o.get("calls", 0)
            digests.add(o["digest"])
            if o.get("calls", 0) > 0:
                nontrivial.add(o["digest"])
            for t, why in (o.get("failed_tests") or {}).items():
                key = {"sig": "repository-test-fails-in-world", "op": t.split("::")[-1], "engine": "harvest"}
                k = rep.classify(key)
                if k:
                    rep.note_known(k)
                    continue
                kj = json.dumps(key, sort_keys=True)
                viols.setdefault(kj, ("hv", jid, t, why, h))
            continue
        if w is None:
            continue
        base = results.get(f"s{si}-base")
        if not base or base["status"] != "ok":
            continue
        prefix_counts[w["prefix"]] = prefix_counts.get(w["prefix"], 0) + 1
        digests.add((o["digest"], json.dumps(w, sort_keys=True)))
        if len(o["transcript"]) > 2:
            nontrivial.add((o["digest"], w.get("salt"), w.get("sym_offset"), w.get("prefix"), h))
        if o.get("z3_unknown") or base.get("z3_unknown"):
            z3_unknown += 1
        if o["digest"] != base["digest"]:
            d = worlds.first_diff(base, o)
            step_op = "?"
            for x, y in zip(base["transcript"], o["transcript"]):
                if x != y:
                    step_op = x[0]
                    break
            if (o.get("z3_unknown") or base.get("z3_unknown")) and step_op not in ("final-compile", "str", "setup"):
                # the solver answered `unknown` in one world: outcome of an incomplete external prover
                rep_key = None
                continue
            key = {"sig": "transcript-differs", "op": step_op, "prefix": w["prefix"], "engine": "worlds",
                   "hashseed_differs": h != hashseeds[0] and w["prefix"] == "none" and w.get("salt") is None}
            k = rep.classify(key)
            if k:
                rep.note_known(k)
                continue
            kj = json.dumps(key, sort_keys=True)
            viols.setdefault(kj, ("s", si, w, h, d))
        if len(samples) < 3 and w["prefix"] != "none":
            samples.append({"session_src": sessions[si][1]["src"][:600], "ops": [o_["op"] for o_ in sessions[si][1]["ops"]] or ["<directed subject script>"], "world": w, "hashseed": h,
                            "transcript_digest": o["digest"], "equal_to_baseline": o["digest"] == base["digest"]})

    for kj, v in sorted(viols.items()):
        key = json.loads(kj)
        if v[0] == "hv":
            _, jid, t, why, h = v
            job = [j for j in per_hs[h] if j["id"] == jid][0]
            data = {"engine": "harvest", "property": PROP, "arg": job["hv"], "signature": key["sig"], "expect_key": {"sig": "test-fails-in-simulated-world", "op": "test"},
                    "violation": {"sig": key["sig"], "detail": why[-800:], "test": t}, "hashseed": h}
            path = common.write_replay(PROP, "hv-" + str(abs(hash(kj)) % 10**9), data)
            rep.violation(key, path)
            continue
        _, si, w, h, d = v
        rs, sdata = sessions[si]
        data = {"engine": "worlds", "property": PROP, "data": sdata, "world_a": {"salt": None, "sym_offset": 0, "prefix": "none", "seed": 0},
                "world_b": w, "hashseed_a": hashseeds[0], "hashseed_b": h, "signature": "transcript-differs", "run_seed": rs,
                "violation": {"sig": "transcript-differs", "detail": d}}
        # minimise the op list while the two worlds still disagree
        from sim.shrink import ddmin

        def test(ops, data=data):
            dd = dict(data)
            dd["data"] = dict(data["data"], ops=ops)
            r = worlds.replay(dd)
            return bool(r.get("violation"))

        if len(viols) <= 3 and len(sdata["ops"]) > 1:
            small = ddmin(list(sdata["ops"]), test, max_tests=12)
            data["data"] = dict(sdata, ops=small)
        elif len(viols) <= 3 and sdata.get("directed") and len(w.get("history") or []) > 1:
            # directed subject: minimise the history (the discarded calls) instead

            def test_h(hist, data=data):
                dd = dict(data)
                dd["world_b"] = dict(data["world_b"], history=hist)
                return bool(worlds.replay(dd).get("violation"))

            data["world_b"] = dict(w, history=ddmin(list(w["history"]), test_h, max_tests=8))
        path = common.write_replay(PROP, str(rs), data)
        okc, out = common.confirm_replay_fresh(path, "transcript-differs", timeout=900)
        if not okc:
            rep.harness_error(f"replay {path} did not reproduce: {out[-300:]}")
            continue
        rep.violation(key, path)

    if results and inconclusive > 0.05 * len(results):
        rep.harness_error(f"{inconclusive}/{len(results)} jobs inconclusive")
    if not samples:
        samples.append({"note": "no sample retained"})
    coverage = {
        "evaluations": n_eval,
        "distinct_nontrivial": len(nontrivial),
        "rule": "one evaluation = one scripted session (generated program + recorded op list, or a shard of the repository's "
        "tests with their goldens) executed in one world = (PYTHONHASHSEED of a fresh interpreter, id-hash salt, Sym offset, "
        "prefix history, test order); transcripts are compared with the baseline world's; distinct = distinct (transcript, "
        "world); non-trivial = the transcript has more than two entries / the shard made scheduling calls",
        "samples": samples,
        "sessions": len(sessions) - n_directed,
        "directed_history_subjects": n_directed,
        "directed_templates": list(directed.TEMPLATES),
        "directed_history_actions": list(directed.ACTIONS),
        "worlds_per_session": n_worlds,
        "hashseeds": hashseeds,
        "prefix_kinds_executed": prefix_counts,
        "harvested": {"worlds": hv_worlds, "tests": hv_tests, "calls": hv_calls},
        "comparisons_skipped_solver_unknown": z3_unknown,
        "runs_per_hour": int(n_eval / max(wall, 1e-6) * 3600),
        "simulated_time": "no clock in exo; one step = one API call of a transcript",
        "fault_kinds_fired": {"prefix_crashed_compile": prefix_counts.get("crashed_compile", 0), "prefix_failed_ops": prefix_counts.get("failed_ops", 0)},
        "inconclusive_runs": inconclusive,
        "determinism_selftest": "the check itself is a determinism comparison: every (session, world) transcript is compared with the baseline",
        "components": {
            "exo (front end, scheduling, code generation)": "real code from /repo/src",
            "hash order of Sym / proc / Config / Memory objects": "simulated by salted __hash__ (seam S3)",
            "str hash order": "real: fresh interpreters with different PYTHONHASHSEED",
            "allocation history / symbol counter": "simulated: Sym offset, prefix sessions, unrelated definitions",
        },
    }
    sys.exit(rep.finish(coverage, assumptions=[
        "outcome differences caused by z3 answering `unknown` in one world are not counted (external incomplete prover)",
        "exception classes and messages are not part of the transcript; only returned/raised, printed procedures, C and header text",
    ]))


if __name__ == "__main__":
    main()

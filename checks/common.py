"""Shared plumbing of the per-property entry points: environment bootstrap,
known-findings file, evidence writer, violation reporting protocol.

Exit codes: 0 property held on everything explored (known findings printed as
KNOWN-FINDING lines); 1 at least one unlisted violation (VIOLATION line per
violation, after the minimised replay reproduced in a fresh interpreter);
2 harness error (never a VIOLATION line).
"""
from __future__ import annotations

import argparse
import json
import os
import subprocess
import sys
import time

VERIF = os.path.dirname(os.path.dirname(os.path.abspath(__file__)))
REPO = os.environ.get("EXO_REPO", "/repo")
EVIDENCE_DIR = os.path.join(VERIF, "evidence")
REPLAY_DIR = os.path.join(VERIF, "replays")
KNOWN_FILE = os.path.join(VERIF, "known_findings.txt")
GUARD = "EXO_VERIF_SIM"


def bootstrap(module: str):
    """Re-exec once so that the interpreter runs with PYTHONHASHSEED=0, the
    guard variable set, and exo imported from /repo's working tree."""
    want_path = os.pathsep.join([VERIF, os.path.join(REPO, "src")])
    env = os.environ
    hs = env.get("_VERIF_HASHSEED", "0")
    if env.get("PYTHONHASHSEED") != hs or env.get(GUARD) != "1" or env.get("_VERIF_BOOT") != "1":
        env = dict(env)
        env["PYTHONHASHSEED"] = hs
        env[GUARD] = "1"
        env["_VERIF_BOOT"] = "1"
        pp = env.get("PYTHONPATH", "")
        env["PYTHONPATH"] = want_path + (os.pathsep + pp if pp else "")
        env.setdefault("PYTHONDONTWRITEBYTECODE", "1")
        os.chdir(VERIF)
        os.execve(sys.executable, [sys.executable, "-m", module] + sys.argv[1:], env)
    os.makedirs(EVIDENCE_DIR, exist_ok=True)
    os.makedirs(REPLAY_DIR, exist_ok=True)


def parse_args(argv=None):
    ap = argparse.ArgumentParser()
    ap.add_argument("--tier", default=os.environ.get("VERIF_TIER", "quick"), choices=["quick", "thorough"])
    ap.add_argument("--replay", default=None)
    ap.add_argument("--workers", type=int, default=int(os.environ.get("VERIF_WORKERS", "0")) or (os.cpu_count() or 4))
    ap.add_argument("--budget", type=float, default=None, help="wall seconds for the exploration phase")
    ap.add_argument("--runs", type=int, default=None)
    ap.add_argument("--no-harvest", action="store_true", help="development: skip the harvested-session phase")
    ap.add_argument("--digests", default=None, help="comma separated run seeds: print {seed: digest} json and exit")
    return ap.parse_args(argv)


# --------------------------------------------------------------------------- #
# known findings


def load_known(prop: str):
    """Lines: ``known: property=C04 match={json} :: text`` and
    ``fixed: property=C07 <commit> <text>`` (fixed entries suppress nothing)."""
    out = []
    if not os.path.exists(KNOWN_FILE):
        return out
    for line in open(KNOWN_FILE):
        line = line.strip()
        if not line.startswith("known:"):
            continue
        body = line[len("known:") :].strip()
        head, _, text = body.partition("::")
        parts = head.strip().split(None, 1)
        if not parts or parts[0] != f"property={prop}":
            continue
        m = parts[1].strip() if len(parts) > 1 else ""
        if not m.startswith("match="):
            continue
        try:
            match = json.loads(m[len("match=") :])
        except Exception:
            continue
        out.append({"match": match, "text": text.strip()})
    return out


def match_known(known, key: dict):
    for k in known:
        if all(key.get(a) == b for a, b in k["match"].items()):
            return k
    return None


# --------------------------------------------------------------------------- #
# reporting


class Report:
    def __init__(self, prop: str, tier: str, seed: int, level="exploration"):
        self.prop = prop
        self.tier = tier
        self.seed = seed
        self.level = level
        self.t0 = time.time()
        self.known = load_known(prop)
        self.violations = []  # (key, replay_path)
        self.known_hits = {}  # text -> count
        self.harness_errors = []
        self.printed = set()

    def harness_error(self, msg: str):
        self.harness_errors.append(msg)
        if len(self.harness_errors) <= 10:
            print(f"HARNESS-ERROR property={self.prop} {msg}", flush=True)

    def classify(self, key: dict):
        """Returns the known-finding entry or None."""
        return match_known(self.known, key)

    def note_known(self, k, n=1):
        self.known_hits[k["text"]] = self.known_hits.get(k["text"], 0) + n

    def violation(self, key: dict, replay_path: str):
        self.violations.append((key, replay_path))
        print(f"VIOLATION property={self.prop} replay={replay_path}", flush=True)
        print(f"  signature: {json.dumps(key, sort_keys=True, default=str)[:600]}", flush=True)

    def finish(self, coverage: dict, assumptions=None, extra=None) -> int:
        for text, n in sorted(self.known_hits.items()):
            print(f"KNOWN-FINDING: property={self.prop} {text} (seen {n}x this run)", flush=True)
        ev = {
            "property_id": self.prop,
            "tier": self.tier,
            "seed": self.seed,
            "level": self.level,
            "coverage": coverage,
            "assumptions": assumptions or [],
            "wall_s": round(time.time() - self.t0, 2),
            "violations": len(self.violations),
        }
        if extra:
            ev["coverage"].update(extra)
        ev["coverage"]["known_findings_seen"] = self.known_hits
        # counters that describe the health / speed of the run rather than the work it covered live in
        # their own sub-objects (a fresh run on a quiet machine legitimately reports 0 inconclusive runs)
        cov = ev["coverage"]
        health = {"harness_errors": len(self.harness_errors)}
        for k in ("inconclusive_runs", "comparisons_skipped_solver_unknown"):
            if k in cov:
                health[k] = cov.pop(k)
        cov["run_health"] = health
        rates = {}
        for k in list(cov):
            if k.endswith("_per_hour"):
                rates[k] = cov.pop(k)
        cov["rates_machine_dependent"] = rates
        path = os.path.join(EVIDENCE_DIR, f"{self.prop}.json")
        tmp = path + ".tmp"
        with open(tmp, "w") as f:
            json.dump(ev, f, indent=1, sort_keys=True, default=str)
        os.replace(tmp, path)
        if self.harness_errors:
            print(f"check {self.prop}: harness errors: {len(self.harness_errors)} -> exit 2", flush=True)
            return 2
        if self.violations:
            return 1
        print(
            f"check {self.prop} [{self.tier}] ok: evaluations={coverage.get('evaluations')} "
            f"distinct_nontrivial={coverage.get('distinct_nontrivial')} wall={ev['wall_s']}s",
            flush=True,
        )
        return 0


def write_replay(prop: str, name: str, data: dict) -> str:
    os.makedirs(REPLAY_DIR, exist_ok=True)
    path = os.path.join(REPLAY_DIR, f"{prop}-{name}.json")
    with open(path, "w") as f:
        json.dump(data, f, indent=1, sort_keys=True, default=str)
    return path


def confirm_replay_fresh(path: str, expect_sig: str, timeout=300):
    """Re-run the replay file in a fresh interpreter; returns (ok, output)."""
    env = dict(os.environ)
    env["PYTHONHASHSEED"] = "0"
    try:
        p = subprocess.run(
            [sys.executable, "-m", "sim.replay", path],
            cwd=VERIF,
            env=env,
            capture_output=True,
            text=True,
            timeout=timeout,
        )
    except subprocess.TimeoutExpired:
        return False, "timeout"
    out = p.stdout + p.stderr
    ok = p.returncode == 1 and f"signature={expect_sig}" in out
    return ok, out[-2000:]


# --------------------------------------------------------------------------- #
# exploration driver and determinism self-test


def explore(run_fn, run_seeds, workers, wall, budget=None, on_result=None, batch=1, reset=None):
    from sim.runner import run_many

    deadline = (time.monotonic() + budget) if budget else None
    return run_many(
        run_fn, run_seeds, workers=workers, wall=wall, deadline=deadline, on_result=on_result, batch=batch, reset=reset
    )


def digests_mode(run_fn, seeds_csv: str, wall=120, batch=1, reset=None):
    """Entry for `--digests`: run the named run-seeds (forked, one worker) and
    print {seed: digest}."""
    from sim.runner import run_many

    seeds = [int(s) for s in seeds_csv.split(",") if s]
    recs = run_many(run_fn, seeds, workers=2, wall=wall, batch=batch, reset=reset)
    out = {}
    for r in recs:
        out[str(r["arg"])] = r["result"]["digest"] if r["status"] == "ok" else r["status"]
    print("DIGESTS " + json.dumps(out, sort_keys=True))
    return 0


def determinism_selftest(module: str, run_fn, seeds, workers, wall=120, extra_args=(), batch=1, reset=None):
    """Every seed is run twice in this process tree (at two worker counts) and
    once more in a fresh interpreter under another PYTHONHASHSEED; all event-log
    digests must agree.  Returns (ok, info)."""
    from sim.runner import run_many

    seeds = list(seeds)
    a = run_many(run_fn, seeds, workers=workers, wall=wall, batch=batch, reset=reset)
    b = run_many(
        run_fn, list(reversed(seeds)), workers=max(2, workers // 3), wall=wall, batch=max(1, batch // 2 + 1), reset=reset
    )

    def dg(recs):
        return {r["arg"]: (r["result"]["digest"] if r["status"] == "ok" else "!" + r["status"]) for r in recs}

    da, db = dg(a), dg(b)
    env = dict(os.environ)
    env["_VERIF_HASHSEED"] = "4242"
    env.pop("_VERIF_BOOT", None)
    env.pop("PYTHONHASHSEED", None)
    try:
        p = subprocess.run(
            [sys.executable, "-m", module, "--digests", ",".join(str(s) for s in seeds), *extra_args],
            cwd=VERIF,
            env=env,
            capture_output=True,
            text=True,
            timeout=wall * max(1, len(seeds) // 2) + 120,
        )
        line = [l for l in p.stdout.splitlines() if l.startswith("DIGESTS ")]
        dc = {int(k): v for k, v in json.loads(line[-1][8:]).items()} if line else {}
        err = "" if line else (p.stdout + p.stderr)[-1500:]
    except subprocess.TimeoutExpired:
        dc, err = {}, "fresh-interpreter digest run timed out"
    mism = []
    skipped = 0
    for s in seeds:
        vals = {da.get(s), db.get(s), dc.get(s)}
        if any(str(v).endswith("~u") for v in vals):
            # z3 answered `unknown` in at least one execution of this seed: an external, history-dependent
            # verdict (see sim/session.py result()); not a property of the simulator
            skipped += 1
            continue
        if any(str(v) in ("!inconclusive", "inconclusive") for v in vals):
            # the run hit its wall limit somewhere (exo has analyses that do not terminate on some
            # inputs, e.g. get_changing_scalars on an alias cycle): no digest to compare
            skipped += 1
            continue
        if len(vals) != 1 or any(v is None or str(v).startswith("!") for v in vals):
            mism.append({"seed": s, "a": da.get(s), "b": db.get(s), "fresh_hashseed_4242": dc.get(s)})
    info = {"seeds": len(seeds), "mismatches": mism[:5], "n_mismatch": len(mism), "fresh_err": err, "skipped_inconclusive_or_solver_unknown": skipped}
    return (not mism), info


def preload():
    """Import exo and the solvers in the parent so forked children start warm."""
    import exo  # noqa: F401
    import exo.API_scheduling  # noqa: F401
    import exo.stdlib.scheduling  # noqa: F401
    import exo.core.proc_eqv  # noqa: F401
    import exo.rewrite.new_eff  # noqa: F401
    import exo.libs.memories  # noqa: F401
    import z3  # noqa: F401
    import pysmt.shortcuts  # noqa: F401
    import sim.eqv_sim, sim.eqv_api_sim, sim.seams, sim.kernel, sim.shrink, sim.state  # noqa: F401,E401

    # solver seam: a deterministic resource budget per z3 query (z3's rlimit counts internal steps, not
    # wall time).  exo sets no timeout, and z3 occasionally never returns on a quantified div/mod query;
    # with the budget such a query answers `unknown`, which exo turns into an error (the F2 outcome).
    # 0 disables.  Harvested repository tests run without it (sim.harvest resets it to 0).
    z3.set_param("rlimit", int(os.environ.get("VERIF_Z3_RLIMIT", "20000000")))
    sim.state.snapshot_module_globals()
    sim.state.memoise_pysmt_factory()
    sim.state.fast_inspect_stack()
    sim.state.snapshot_base()


def warmup(n=3):
    """Run a few complete generated sessions in the parent so that every lazy
    initialisation inside exo and its dependencies (first-call imports, regex
    and parser tables, memoised types) has happened before children are forked:
    line-event counts - and therefore crash points - are then the same in a
    fresh child and in one that has already executed other sessions."""
    import sim.session as S
    import sim.state

    for i in range(n):
        cfg = {"configs": i % 2 == 0, "par": i % 2 == 1, "checks": {"pure": True, "fwd": True, "sem": True, "valid": True},
               "fault_rate": 0.3, "compile_rate": 0.3, "compile_fault_rate": 1.0, "max_ops": 14, "min_ops": 10}
        try:
            S.generate_and_run(7000 + i, cfg)
        except Exception:
            pass
    sim.state.reset_exo_globals()
    sim.state.snapshot_base()
    import sim.seams

    sim.seams.salt_mark_base()

"""C06 - session-simulator check (see DESIGN.md §3 C06 and checks/session_check.py)."""
import sys

from checks import common

MODULE = "checks.c06"
PROP = "C06"


def main():
    common.bootstrap(MODULE)
    args = common.parse_args()
    if args.replay:
        from sim import replay

        sys.exit(replay.main([args.replay]))
    from checks import props, session_check

    sys.exit(
        session_check.run_check(
            MODULE, PROP, getattr(props, "cfg_" + PROP), props.harvest_cfgs_for(PROP), args, props.BUDGETS, {}
        )
    )


if __name__ == "__main__":
    main()

"""C11 - procedure-equivalence tracking is a sound congruence.

Seeded histories against exo.core.proc_eqv (direct) and through real
Procedures (api), compared step by step with a reference closure model.
"""
from __future__ import annotations

import json
import sys
import time

from checks import common

MODULE = "checks.c11"
PROP = "C11"


def _cfg(run_seed: int):
    from sim.kernel import substream

    r = substream(run_seed, "cfg")
    mode = r.random()
    # swarm: a third of the runs fault-free-and-direct, a third with crashes,
    # a third through the real Procedure API
    if mode < 0.34:
        return {"engine": "direct", "fault_rate": 0.0, "max_ops": r.choice([12, 25, 40])}
    if mode < 0.62:
        return {"engine": "direct", "fault_rate": r.choice([0.15, 0.3]), "max_ops": r.choice([12, 25, 40])}
    return {"engine": "api", "fault_rate": r.choice([0.0, 0.0, 0.2]), "max_ops": r.choice([8, 14, 20])}


def _reset():
    from sim.state import reset_exo_globals

    reset_exo_globals()


def run_seed(run_seed: int) -> dict:
    cfg = _cfg(run_seed)
    if cfg["engine"] == "direct":
        from sim import eqv_sim

        ops = eqv_sim.gen_history(run_seed, cfg)
        res = eqv_sim.run_history(ops)
    else:
        from sim import eqv_api_sim

        ops = eqv_api_sim.gen_history(run_seed, cfg)
        res = eqv_api_sim.run_history(ops)
    res["engine"] = cfg["engine"]
    res["n_ops"] = len(ops)
    res["faulty_cfg"] = cfg["fault_rate"] > 0
    if res["violation"]:
        res["ops"] = ops
    elif run_seed % 997 == 0:
        res["sample_ops"] = ops[:12]
    return res


def replay_ops(engine: str, ops: list) -> dict:
    if engine == "direct":
        from sim import eqv_sim

        return eqv_sim.run_history(ops)
    from sim import eqv_api_sim

    return eqv_api_sim.run_history(ops)


def _replay_in_fork(engine, ops):
    from sim.runner import run_one_forked

    r = run_one_forked(lambda _: replay_ops(engine, ops), 0, wall=120)
    if r["status"] != "ok":
        return None
    return r["result"]


def shrink(engine, ops, sig):
    from sim.shrink import ddmin

    def test(sub):
        r = _replay_in_fork(engine, sub)
        return bool(r and r["violation"] and r["violation"]["sig"] == sig)

    small = ddmin(list(ops), test, max_tests=300)
    # strip faults that are not needed
    for i, op in enumerate(small):
        if "crash" in op:
            cand = [dict(o) for o in small]
            del cand[i]["crash"]
            if test(cand):
                small = cand
    return small


def main():
    common.bootstrap(MODULE)
    args = common.parse_args()
    if args.digests:
        common.preload()
        sys.exit(common.digests_mode(run_seed, args.digests, batch=7, reset=_reset))
    if args.replay:
        from sim import replay

        sys.exit(replay.main([args.replay]))
    from sim.kernel import base_seed, derive_seed

    common.preload()
    seed = base_seed()
    rep = common.Report(PROP, args.tier, seed)
    n_runs = args.runs or (6000 if args.tier == "quick" else 120000)
    budget = args.budget or (75 if args.tier == "quick" else 900)
    seeds = [derive_seed(seed, PROP, i) % (1 << 40) for i in range(n_runs)]

    # determinism self-test
    n_st = 24 if args.tier == "quick" else 120
    ok, info = common.determinism_selftest(MODULE, run_seed, seeds[:n_st], args.workers, batch=8, reset=_reset)
    if not ok:
        rep.harness_error("determinism self-test failed: " + json.dumps(info)[:800])

    t0 = time.time()
    recs = common.explore(run_seed, seeds, args.workers, wall=90, budget=budget, batch=50, reset=_reset)
    wall = time.time() - t0

    digests = set()
    nontrivial = set()
    agg_probes, agg_faults = {}, {}
    per_engine = {}
    inconclusive = 0
    samples = []
    steps = 0
    viols = []
    for r in recs:
        if r["status"] == "inconclusive":
            inconclusive += 1
            continue
        if r["status"] != "ok":
            rep.harness_error(f"run seed={r['arg']}: {r.get('error')} {r.get('trace','')[-600:]}")
            continue
        res = r["result"]
        digests.add(res["digest"])
        steps += res["n_events"]
        per_engine[res["engine"]] = per_engine.get(res["engine"], 0) + 1
        for k, v in res["probes"].items():
            agg_probes[k] = agg_probes.get(k, 0) + v
        for k, v in res["faults"].items():
            agg_faults[k] = agg_faults.get(k, 0) + v
        # non-trivial: at least one edge recorded and one query answered "equivalent"
        if res["n_edges"] > 0 and (res["probes"].get("check_true", 0) + res["probes"].get("strictest_eqv", 0)) > 0:
            nontrivial.add(res["digest"])
        if "sample_ops" in res and len(samples) < 4:
            samples.append({"run_seed": r["arg"], "engine": res["engine"], "first_ops": res["sample_ops"]})
        if res["violation"]:
            viols.append((r["arg"], res))

    # violations: dedupe by signature, shrink, confirm in a fresh interpreter
    seen_sig = set()
    for rs, res in viols:
        v = res["violation"]
        key = v["key"]
        k = rep.classify(key)
        if k:
            rep.note_known(k)
            continue
        if v["sig"] in seen_sig:
            continue
        seen_sig.add(v["sig"])
        small = shrink(res["engine"], res["ops"], v["sig"])
        final = _replay_in_fork(res["engine"], small) or res
        data = {
            "property": PROP,
            "engine": "eqv-" + res["engine"],
            "run_seed": rs,
            "verif_seed": seed,
            "signature": v["sig"],
            "violation": (final.get("violation") or v),
            "ops": small,
            "original_len": len(res["ops"]),
        }
        path = common.write_replay(PROP, f"{rs}", data)
        okc, out = common.confirm_replay_fresh(path, v["sig"])
        if not okc:
            rep.harness_error(f"minimised replay {path} did not reproduce in a fresh interpreter: {out[-400:]}")
            continue
        rep.violation(key, path)

    done = len(recs) - inconclusive
    if recs and inconclusive > 0.05 * len(recs):
        rep.harness_error(f"{inconclusive}/{len(recs)} runs inconclusive")
    if not samples and recs:
        samples.append({"run_seed": recs[0]["arg"], "note": "first run", "digest": recs[0].get("result", {}).get("digest")})
    coverage = {
        "evaluations": done,
        "distinct_nontrivial": len(nontrivial),
        "rule": "one evaluation = one seeded history (6-40 ops direct, 8-20 ops api) executed in a forked child against "
        "the real proc_eqv state and the reference closure; distinct = distinct event-log digest; non-trivial = at "
        "least one derivation/assert edge was recorded and at least one query answered 'equivalent'",
        "samples": samples,
        "runs_per_hour": int(done / max(wall, 1e-6) * 3600),
        "logical_steps": steps,
        "simulated_time": "no clock exists in exo; time is logical steps (API calls), see logical_steps",
        "distinct_digests": len(digests),
        "fault_kinds_fired": agg_faults,
        "probes": agg_probes,
        "runs_per_engine": per_engine,
        "inconclusive_runs": inconclusive,
        "determinism_selftest": info,
        "components": {
            "exo.core.proc_eqv, Procedure.__init__, scheduling ops used by the api engine": "real code from /repo/src",
            "reference closure (EqvModel)": "model, /verif/sim/eqv_sim.py",
            "garbage collection timing": "simulated: gc disabled, collect only as a scheduled op",
            "crash points": "simulated: sys.monitoring LINE event k inside proc_eqv.py / exo",
        },
    }
    sys.exit(
        rep.finish(
            coverage,
            assumptions=[
                "per-field reading of the statement (x~{a}y and x~{b}y gives x~{}y), as implemented by the reference model",
                "a call interrupted by an injected crash may apply its edge to any subset of the universes; answers are then only required to lie between the history without and with that edge",
            ],
        )
    )


if __name__ == "__main__":
    main()
